#!/usr/bin/env python3
"""Regenerates MANIFEST.json from the table below (kept in one place so it stays valid)."""
import json, subprocess

CLAIMED = {
 # id: (level, technique, level text, note)
}
def load():
    import importlib.util, os
    p = os.path.join(os.path.dirname(__file__), "manifest_table.py")
    spec = importlib.util.spec_from_file_location("mt", p)
    m = importlib.util.module_from_spec(spec); spec.loader.exec_module(m)
    return m

def main():
    m = load()
    props = [json.loads(l)["id"] for l in open("/verif/properties.jsonl")]
    checks = []
    for pid in props:
        if pid not in m.CLAIMED:
            continue
        c = m.CLAIMED[pid]
        checks.append({
            "property_id": pid,
            "quick_cmd": f"./check {pid} quick",
            "thorough_cmd": f"./check {pid} thorough",
            "evidence_file": f"/verif/evidence/{pid}.json",
            "replay_cmd_template": "./check replay {path}",
            "engine": c["engine"],
            "level_claimed": {"category": c["level"], "text": c["text"], "design_ref": c.get("ref", "DESIGN.md §2 " + pid)},
            "level_note": c["note"],
            "technique": c["technique"],
        })
    na = [{"property_id": pid, "reason": m.NOT_APPLICABLE.get(pid, "no check built yet in this round; not claimed")} for pid in props if pid not in m.CLAIMED]
    man = {
        "version": 1,
        "setup_cmd": "sim/build.sh >/dev/null && ./check selftest",
        "hooks": {
            "guard": "verif-sim (no tagged hooks in /repo: the simulation build is produced by source rewriting of a scratch copy, see DESIGN.md §1.1)",
            "enable": "sim/build.sh copies /repo's working tree to a scratch dir, rewrites every sync/atomic/go/chan/map-range site to call the simulator runtime, builds the harness against it",
            "baseline_off_cmd": "./baseline.sh",
            "source_commits": [],
            "add_only": True,
        },
        "engines": m.ENGINES,
        "checks": checks,
        "not_applicable": na,
        "notes": m.NOTES,
    }
    json.dump(man, open("/verif/MANIFEST.json", "w"), indent=1)
    print("claimed:", [c["property_id"] for c in checks], "not claimed:", [x["property_id"] for x in na])

main()
