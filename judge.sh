#!/bin/bash
# judge.sh <mutant-dir> [props...]  - confirms a candidate property-breaking change and runs checks against it.
#   <mutant-dir>/MUTANT/{patch.diff,demo_test.go,notes.md}
# Works in a fresh scratch worktree of /repo HEAD; evidence/replays go to a scratch dir.
M=$1; shift
PROPS="$@"
WT=$(mktemp -d /tmp/judge.XXXXXX)
OUT=$(mktemp -d /tmp/judge-out.XXXXXX)
git -C /repo worktree add -q --detach "$WT/wt" HEAD || exit 2
cleanup() { git -C /repo worktree remove --force "$WT/wt" 2>/dev/null; git -C /repo worktree prune; rm -rf "$WT"; }
trap cleanup EXIT
cd "$WT/wt"
export GOFLAGS=-mod=mod GOPROXY=off
if ! git apply --check "$M/MUTANT/patch.diff" 2>/dev/null; then echo "PATCH-NEEDS-3WAY (context drift against /repo HEAD)"; fi
# demo placement: root, package as declared
DEMO=$M/MUTANT/demo_test.go
DEST=.
grep -qi "internal/graph" "$M/MUTANT/notes.md" 2>/dev/null && grep -q "^package graph" "$DEMO" && DEST=internal/graph
grep -q "^package reflection" "$DEMO" 2>/dev/null && DEST=internal/reflection
for mod in gin echo fiber chi http; do grep -q "^package $mod" "$DEMO" 2>/dev/null && DEST=$mod; done
if [ -f "$DEMO" ]; then
  cp "$DEMO" "$DEST/zz_demo_test.go"
  (cd $DEST && go test -vet=off -count=1 -run "$(grep -o 'func Test[A-Za-z0-9_]*' zz_demo_test.go | sed 's/func //' | paste -sd'|')" . >/dev/null 2>&1) && echo "DEMO-WITHOUT-PATCH: pass" || echo "DEMO-WITHOUT-PATCH: FAIL (bad demo)"
fi
git apply "$M/MUTANT/patch.diff" 2>/dev/null || git apply --3way "$M/MUTANT/patch.diff" >/dev/null 2>&1 || { echo "cannot apply"; exit 2; }
if [ -f "$DEMO" ]; then
  (cd $DEST && go test -vet=off -count=1 -run "$(grep -o 'func Test[A-Za-z0-9_]*' zz_demo_test.go | sed 's/func //' | paste -sd'|')" . >/dev/null 2>&1) && echo "DEMO-WITH-PATCH: pass (mutant not demonstrated)" || echo "DEMO-WITH-PATCH: fail (as required)"
  rm -f "$DEST/zz_demo_test.go"
fi
fails=0
for m in . chi echo fiber gin http; do (cd $m && go test -vet=off -count=1 ./... >/dev/null 2>&1) || { echo "SUITE-FAILS in $m"; fails=1; }; done
[ $fails = 0 ] && echo "SUITE: passes with patch"
cd /verif
for p in $PROPS; do
  r=$(VERIF_REPO="$WT/wt" VERIF_OUT_DIR="$OUT" ./check $p quick 2>&1)
  rc=$?
  echo "CHECK $p rc=$rc $(echo "$r" | grep -v '^KNOWN-FINDING' | grep -m1 'rule=' | cut -c1-260)"
  [ $rc = 2 ] && echo "$r" | tail -5
done
rm -rf "$OUT"
