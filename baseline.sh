#!/bin/bash
# Runs the repository's pinned test suite (guard OFF: no build tags, uninstrumented tree).
# Prints PASS/FAIL counts; exit 0 iff no test fails.
export GOFLAGS=-mod=mod GOPROXY=off
rc=0
tot=0
for m in . chi echo fiber gin http; do
  out=$(cd /repo/$m && go test -json -vet=off -count=1 -timeout 25m ./... 2>&1)
  p=$(echo "$out" | grep -c '"Action":"pass".*"Test"')
  f=$(echo "$out" | grep -c '"Action":"fail"')
  tot=$((tot+p))
  echo "module $m: pass=$p fail=$f"
  if [ "$f" != 0 ]; then rc=1; echo "$out" | grep '"Action":"fail"' | head; fi
done
echo "total passing test entries: $tot"
exit $rc
