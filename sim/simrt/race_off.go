//go:build !race

package simrt

// RaceBuild reports whether the binary was built with -race.
const RaceBuild = false

func raceDisable() {}
func raceEnable()  {}
