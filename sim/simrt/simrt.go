// Package simrt is the deterministic scheduler runtime that the instrumented
// copy of godi (and the harness) call into. It is copied into the scratch copy
// of the godi module as github.com/junioryono/godi/v4/simrt.
//
// Exactly one task holds the token at any time. Every decision (which task
// runs next, every map-iteration permutation) is drawn through Sim.Draw, which
// the harness backs with its choice tape. There is no real clock, no sleep and
// no goroutine whose interleaving is not decided here.
//
// Race-detector regime: the token hand-off is hidden from the race detector
// (runtime.RaceDisable around the channel operations), so no happens-before
// edge exists between tasks except the ones godi's own synchronisation creates.
// Scheduler state is touched only from //go:norace functions and uses no maps.
package simrt

import (
	"context"
	"fmt"
	"runtime"
	"sort"
	"sync"
	"sync/atomic"
)

// Draw streams.
const (
	StreamSched = 0 // task picks
	StreamMap   = 1 // map-iteration permutations
)

// Site classes.
const (
	ClassSync = 0 // sync/atomic/chan site inside godi
	ClassUser = 1 // harness user-code site (constructor, Close, handler, op boundary)
)

// Task states.
const (
	stNew      = 0
	stRunnable = 1
	stLock     = 2 // blocked on a lock, must retry itself
	stChan     = 3 // blocked on a channel receive, polled by the scheduler
	stDone     = 4
)

const MaxTasks = 8192

// maxLive bounds the number of tasks that are alive at the same time.
const maxLive = 4096

// Abort is the sentinel panic value raised from a yield point when the task
// is being torn down (budget exceeded, deadlock, end of run).
type Abort struct{ Reason string }

func (a *Abort) Error() string { return "simrt abort: " + a.Reason }

type Task struct {
	ID     int
	Name   string
	Client bool // harness client (true) or spawned by godi via `go` (false)
	Parent int  // spawning task id, -1 for clients

	wake  chan struct{}
	Ended chan struct{} // closed (race-visibly) when the task function returned

	state    int
	site     int
	retried  bool          // lock-blocked task has retried since the last progress event
	try      func() bool   // chan-blocked: non-blocking attempt, stashes the value
	opYields int           // yields since BeginOp
	abort    *Abort        // set => next yield panics
	Aborted  *Abort        // sticky: first abort delivered to this task
	prio     int           // PCT priority
	settling bool          // Settle(): runs only when nobody else can
	User     any           // harness data
	Panic    any           // panic that escaped the task function (not Abort)
	Stack    []byte
}

// Verdict of a run as far as the scheduler is concerned.
type Verdict struct {
	Stuck        bool  // no task could make progress
	StuckClients []int // client tasks that were blocked at that point (deadlock)
	StuckSpawned []int // godi-spawned tasks parked at that point (e.g. watchers)
	StuckSites   []int
	StepLimit    bool // run step cap reached
	TaskLimit    bool // more than maxLive tasks alive at once / MaxTasks created
}

type Config struct {
	Draw         func(stream, n int) int // n>=1, returns [0,n)
	Strategy     int                     // 0 uniform, 1 sticky, 2 pct
	StickyNum    int                     // sticky: continue with probability StickyNum/8
	UserOnly     bool                    // switch tasks only at ClassUser sites
	OpYieldLimit int                     // per-operation yield budget
	StepLimit    int                     // per-run step cap
	PCTDepth     int
	TraceCap     int
}

type TraceEntry struct {
	Task int32
	Site int32
}

type Sim struct {
	cfg   Config
	tasks [MaxTasks]*Task // every task ever created (for reporting)
	n     int
	live  [maxLive]*Task // tasks that have not ended, in creation order
	nl    int
	cur   *Task
	done  chan struct{}

	steps    int
	switches int
	hash     uint64
	pairHash [4096]bool // distinct (fromSite,toSite) context-switch pairs, hashed
	pairs    int
	trace    []TraceEntry
	traceLen int
	verdict  Verdict
	finished bool
	pctLeft  int
	pctNext  int

	// counters (reach)
	LockContended int
	ChanBlocked   int
	MapPerms      int
	Spawned       int
}

var active *Sim

// SiteNames is filled by the instrumenter-generated file (sites_gen.go) for
// sites inside godi and by the harness for its own sites.
var SiteNames = map[int]string{}
var siteMu sync.Mutex

func RegisterSite(id int, name string) {
	siteMu.Lock()
	SiteNames[id] = name
	siteMu.Unlock()
}

func SiteName(id int) string {
	siteMu.Lock()
	defer siteMu.Unlock()
	if s, ok := SiteNames[id]; ok {
		return s
	}
	return fmt.Sprintf("site#%d", id)
}

// New creates a simulation. Not yet active.
func New(cfg Config) *Sim {
	if cfg.OpYieldLimit == 0 {
		cfg.OpYieldLimit = 20000
	}
	if cfg.StepLimit == 0 {
		cfg.StepLimit = 400000
	}
	if cfg.TraceCap == 0 {
		cfg.TraceCap = 4096
	}
	s := &Sim{cfg: cfg, done: make(chan struct{}, 1)}
	s.trace = make([]TraceEntry, cfg.TraceCap)
	s.hash = 1469598103934665603
	s.pctLeft = cfg.PCTDepth
	return s
}

// AddClient registers a client task. Must be called before Run.
func (s *Sim) AddClient(name string, user any, fn func(t *Task)) *Task {
	t := s.newTask(name, true, -1)
	t.User = user
	go s.taskMain(t, func() { fn(t) })
	return t
}

//go:norace
func (s *Sim) newTask(name string, client bool, parent int) *Task {
	if s.n >= MaxTasks || s.nl >= maxLive {
		// nothing has been registered yet: unwinding through the caller is safe
		s.verdict.TaskLimit = true
		panic(&Abort{Reason: "task-limit"})
	}
	t := &Task{ID: s.n, Name: name, Client: client, Parent: parent,
		wake: make(chan struct{}, 1), Ended: make(chan struct{}), state: stRunnable}
	t.prio = 1000 + s.draw(StreamSched, 1000)
	s.tasks[s.n] = t
	s.n++
	s.live[s.nl] = t
	s.nl++
	return t
}

func (s *Sim) taskMain(t *Task, fn func()) {
	hiddenRecv(t.wake)
	defer func() {
		r := recover()
		s.taskEnd(t, r)
	}()
	s.checkAbort(t)
	fn()
}

//go:norace
func (s *Sim) checkAbort(t *Task) {
	if t.abort != nil {
		a := t.abort
		if t.Aborted == nil {
			t.Aborted = a
		}
		panic(a)
	}
}

//go:norace
func (s *Sim) taskEnd(t *Task, r any) {
	if r != nil {
		if _, ok := r.(*Abort); !ok {
			t.Panic = r
			buf := make([]byte, 8192)
			t.Stack = buf[:runtime.Stack(buf, false)]
		}
	}
	t.state = stDone
	// drop from the live list, keeping creation order
	for i := 0; i < s.nl; i++ {
		if s.live[i] == t {
			for j := i; j+1 < s.nl; j++ {
				s.live[j] = s.live[j+1]
			}
			s.nl--
			s.live[s.nl] = nil
			break
		}
	}
	s.progress()
	close(t.Ended) // race-visible join edge
	s.cur = nil
	s.dispatch(nil)
}

// Run activates the simulation, runs until every task has ended or no task
// can make progress, tears down the remaining tasks, deactivates and returns.
func (s *Sim) Run() Verdict {
	if active != nil {
		panic("simrt: nested Run")
	}
	active = s
	s.dispatch(nil)
	hiddenRecv(s.done)
	// Tear down whatever is still parked.
	s.teardown()
	active = nil
	// visible joins
	for i := 0; i < s.count(); i++ {
		<-s.task(i).Ended
	}
	return s.verdict
}

//go:norace
func (s *Sim) count() int { return s.n }

//go:norace
func (s *Sim) task(i int) *Task { return s.tasks[i] }

//go:norace
func (s *Sim) teardown() {
	s.finished = true
	for i := 0; i < s.n; i++ {
		t := s.tasks[i]
		if t.state == stDone {
			continue
		}
		t.abort = &Abort{Reason: "teardown"}
		s.cur = t
		hiddenSend(t.wake)
		hiddenRecv(s.done)
	}
}

//go:norace
func (s *Sim) draw(stream, n int) int {
	if n <= 1 {
		return 0
	}
	v := s.cfg.Draw(stream, n)
	if v < 0 || v >= n {
		v = 0
	}
	return v
}

//go:norace
func (s *Sim) progress() {
	for i := 0; i < s.nl; i++ {
		s.live[i].retried = false
	}
}

// dispatch picks the next task and hands the token over. `from` is the task
// giving up the token (nil at start and at task end). Returns true if `from`
// keeps the token.
//
//go:norace
func (s *Sim) dispatch(from *Task) bool {
	if s.finished {
		// teardown mode: hand control back to Run
		if from == nil {
			hiddenSend(s.done)
		}
		return from != nil
	}
	// poll channel-blocked tasks
	for i := 0; i < s.nl; i++ {
		t := s.live[i]
		if t.state == stChan && t.try != nil {
			if t.try() {
				t.state = stRunnable
				t.try = nil
				s.progress()
			}
		}
	}
	var cand [maxLive]*Task
	nc := 0
	nRunnable := 0
	for i := 0; i < s.nl; i++ {
		t := s.live[i]
		switch t.state {
		case stRunnable:
			if t.settling {
				continue
			}
			cand[nc] = t
			nc++
			nRunnable++
		case stLock:
			if !t.retried {
				cand[nc] = t
				nc++
			}
		}
	}
	if nc == 0 {
		// only settling tasks (if any) are left runnable: they have settled
		for i := 0; i < s.nl; i++ {
			t := s.live[i]
			if t.state == stRunnable && t.settling {
				t.settling = false
				cand[nc] = t
				nc++
			}
		}
	}
	if s.steps >= s.cfg.StepLimit {
		s.verdict.StepLimit = true
		nc = 0
	}
	if nc == 0 {
		// nobody can run: finished, quiescent or deadlocked
		live := 0
		for i := 0; i < s.nl; i++ {
			t := s.live[i]
			if t.state != stDone {
				live++
				if t.Client {
					s.verdict.StuckClients = append(s.verdict.StuckClients, t.ID)
				} else {
					s.verdict.StuckSpawned = append(s.verdict.StuckSpawned, t.ID)
				}
				s.verdict.StuckSites = append(s.verdict.StuckSites, t.site)
			}
		}
		s.verdict.Stuck = live > 0
		s.finished = true
		s.cur = nil
		hiddenSend(s.done)
		if from != nil {
			// park the caller until teardown aborts it
			hiddenRecv(from.wake)
			s.cur = from
			return true
		}
		return false
	}
	var next *Task
	switch {
	case from != nil && from.state == stRunnable && !from.settling && s.cfg.UserOnly && from.siteClass() == ClassSync:
		next = from
	case s.cfg.Strategy == 1 && from != nil && from.state == stRunnable && !from.settling && s.draw(StreamSched, 8) < s.cfg.StickyNum:
		next = from
	case s.cfg.Strategy == 2:
		// PCT: highest priority candidate runs; at change points the running
		// task's priority drops below everything.
		if s.pctLeft > 0 {
			if s.pctNext == 0 {
				s.pctNext = s.steps + 1 + s.draw(StreamSched, 40)
			}
			if s.steps >= s.pctNext && from != nil {
				from.prio = s.pctLeft
				s.pctLeft--
				s.pctNext = 0
			}
		}
		for i := 0; i < nc; i++ {
			if next == nil || cand[i].prio > next.prio {
				next = cand[i]
			}
		}
	default:
		next = cand[s.draw(StreamSched, nc)]
	}
	if next == nil {
		next = cand[0]
	}
	s.steps++
	if s.traceLen < len(s.trace) {
		s.trace[s.traceLen] = TraceEntry{int32(next.ID), int32(next.site)}
		s.traceLen++
	}
	s.hash = (s.hash ^ uint64(next.ID+1)) * 1099511628211
	s.hash = (s.hash ^ uint64(next.site+7)) * 1099511628211
	if next == from {
		return true
	}
	s.switches++
	if from != nil {
		h := (uint32(from.site)*2654435761 ^ uint32(next.site)*40503) & 4095
		if !s.pairHash[h] {
			s.pairHash[h] = true
			s.pairs++
		}
	}
	s.cur = next
	hiddenSend(next.wake)
	if from != nil {
		hiddenRecv(from.wake)
		s.cur = from
		return true
	}
	return false
}

//go:norace
func (t *Task) siteClass() int {
	if t.site >= HarnessSiteBase {
		return ClassUser
	}
	return ClassSync
}

// HarnessSiteBase: site ids at or above this are harness (user-code) sites.
const HarnessSiteBase = 100000

func hiddenSend(ch chan struct{}) {
	raceDisable()
	ch <- struct{}{}
	raceEnable()
}

func hiddenRecv(ch chan struct{}) {
	raceDisable()
	<-ch
	raceEnable()
}

// ---------------------------------------------------------------------------
// API used by instrumented code and by the harness.

// Active reports whether a simulation is running and the caller is a task.
//
//go:norace
func Active() bool { return active != nil && active.cur != nil }

// Current returns the running task (nil outside a simulation).
//
//go:norace
func Current() *Task {
	if active == nil {
		return nil
	}
	return active.cur
}

// Yield is a scheduling point.
//
//go:norace
func Yield(site int) {
	s := active
	if s == nil || s.cur == nil {
		return
	}
	t := s.cur
	t.site = site
	s.yield(t)
}

//go:norace
func (s *Sim) yield(t *Task) {
	s.checkAbort(t)
	t.opYields++
	if t.opYields > s.cfg.OpYieldLimit && t.abort == nil && !s.finished {
		t.abort = &Abort{Reason: "op-yield-budget"}
		s.checkAbort(t)
	}
	s.dispatch(t)
	s.checkAbort(t)
}

// BeginOp resets the per-operation yield budget of the current task.
//
//go:norace
func BeginOp() {
	if s := active; s != nil && s.cur != nil {
		s.cur.opYields = 0
		if s.cur.abort != nil && s.cur.abort.Reason == "op-yield-budget" {
			s.cur.abort = nil
		}
	}
}

// B is the "before" half of an expression-level yield pair: Wrap(B(site), call).
func B(site int) int { Yield(site); return site }

// W yields after the wrapped call and passes its value through.
func W[T any](site int, v T) T { Yield(site); return v }

// Go replaces a `go` statement.
// PCTBurst re-arms the PCT strategy from task context: d further priority
// change points, the first one within the next horizon steps. Lets a harness
// aim change points at a window it is about to open (one burst per race),
// instead of spending them all at the start of a long run.
//
//go:norace
func PCTBurst(d, horizon int) {
	s := activeSim()
	if s == nil || cur() == nil || s.cfg.Strategy != 2 || horizon < 1 {
		return
	}
	s.pctLeft = d
	s.pctNext = s.steps + 1 + s.draw(StreamSched, horizon)
	// the caller may have been demoted by an earlier change point: it competes afresh
	cur().prio = 1000 + s.draw(StreamSched, 1000)
}

func Go(site int, fn func()) {
	s := activeSim()
	if s == nil || cur() == nil {
		go fn()
		return
	}
	parent := cur()
	t := s.newTask("spawn@"+SiteName(site), false, taskID(parent))
	s.noteSpawn(t, site)
	// The go statement is executed by the spawning task: the genuine spawn edge
	// stays visible to the race detector.
	go s.taskMain(t, fn)
	Yield(site)
}

//go:norace
func activeSim() *Sim { return active }

//go:norace
func cur() *Task {
	if active == nil {
		return nil
	}
	return active.cur
}

//go:norace
func taskID(t *Task) int { return t.ID }

//go:norace
func (s *Sim) noteSpawn(t *Task, site int) {
	t.site = site
	s.Spawned++
	s.progress()
}

// Lockers.

type tryLocker interface {
	TryLock() bool
	Lock()
}

type tryRLocker interface {
	TryRLock() bool
	RLock()
}

func Lock(site int, m tryLocker) {
	if cur() == nil {
		m.Lock()
		return
	}
	Yield(site)
	for !m.TryLock() {
		blockLock(site)
	}
	unblock()
}

func RLock(site int, m tryRLocker) {
	if cur() == nil {
		m.RLock()
		return
	}
	Yield(site)
	for !m.TryRLock() {
		blockLock(site)
	}
	unblock()
}

func Unlock(site int, m interface{ Unlock() }) {
	m.Unlock()
	noteProgress()
	Yield(site)
}

func RUnlock(site int, m interface{ RUnlock() }) {
	m.RUnlock()
	noteProgress()
	Yield(site)
}

func TryLock(site int, m tryLocker) bool {
	Yield(site)
	ok := m.TryLock()
	Yield(site)
	return ok
}

//go:norace
func noteProgress() {
	if s := active; s != nil {
		s.progress()
	}
}

//go:norace
func blockLock(site int) {
	s := active
	t := s.cur
	t.site = site
	t.state = stLock
	t.retried = true
	s.LockContended++
	s.yield(t)
}

//go:norace
func unblock() {
	s := active
	if s == nil || s.cur == nil {
		return
	}
	if s.cur.state == stLock {
		s.cur.state = stRunnable
		s.progress()
	}
}

// Recv replaces a blocking channel receive `<-ch`.
func Recv[T any](site int, ch <-chan T) T {
	v, _ := Recv2(site, ch)
	return v
}

// Recv2 replaces `v, ok := <-ch`.
func Recv2[T any](site int, ch <-chan T) (T, bool) {
	if cur() == nil {
		v, ok := <-ch
		return v, ok
	}
	Yield(site)
	select {
	case v, ok := <-ch:
		noteProgress()
		return v, ok
	default:
	}
	st := &stash[T]{}
	try := func() bool {
		raceDisable()
		defer raceEnable()
		select {
		case v, ok := <-ch:
			st.set(v, ok)
			return true
		default:
			return false
		}
	}
	blockChan(site, try)
	v, ok := st.get()
	if !ok {
		// closed channel: redo the receive on this goroutine so that the
		// close->receive edge is race-visible here.
		<-ch
	}
	return v, ok
}

type stash[T any] struct {
	v  T
	ok bool
}

//go:norace
func (s *stash[T]) set(v T, ok bool) { s.v, s.ok = v, ok }

//go:norace
func (s *stash[T]) get() (T, bool) { return s.v, s.ok }

//go:norace
func blockChan(site int, try func() bool) {
	s := active
	t := s.cur
	t.site = site
	t.state = stChan
	t.try = try
	s.ChanBlocked++
	s.yield(t)
}

// Block parks the current task until cond() holds. cond is polled by the
// scheduler (hidden from the race detector) and re-evaluated by the task
// itself afterwards, so the edge the condition carries is visible to the task.
func Block(site int, cond func() bool) {
	if cur() == nil {
		panic("simrt.Block outside a task")
	}
	for !cond() {
		blockChan(site, func() bool {
			raceDisable()
			defer raceEnable()
			return cond()
		})
	}
}

// AfterFunc replaces context.AfterFunc: the callback becomes a scheduled task
// that is parked until ctx is done (or stop is called), instead of a goroutine
// the standard library would start behind the simulator's back.
func AfterFunc(site int, ctx context.Context, f func()) (stop func() bool) {
	if cur() == nil {
		return context.AfterFunc(ctx, f)
	}
	var state atomic.Int32 // 0 armed, 1 stopped, 2 fired
	Go(site, func() {
		Block(site, func() bool { return state.Load() != 0 || ctx.Err() != nil })
		if state.CompareAndSwap(0, 2) {
			f()
		}
	})
	return func() bool {
		ok := state.CompareAndSwap(0, 1)
		noteProgress()
		return ok
	}
}

// Settle returns once no other task can run: every other task has ended or
// is parked. Used to evaluate quiescent-state oracles.
func Settle(site int) {
	if cur() == nil {
		return
	}
	setSettling()
	Yield(site)
}

//go:norace
func setSettling() { active.cur.settling = true }

// Keys returns the keys of m in an order decided by the simulation: a stable
// base order (independent of addresses where the key type allows it) permuted
// by the map-order stream. Outside a simulation it is the base order.
func Keys[K comparable, V any](site int, m map[K]V) []K {
	keys := make([]K, 0, len(m))
	strs := make([]string, 0, len(m))
	for k := range m {
		keys = append(keys, k)
		strs = append(strs, keyString(k))
	}
	idx := make([]int, len(keys))
	for i := range idx {
		idx[i] = i
	}
	sort.SliceStable(idx, func(a, b int) bool { return strs[idx[a]] < strs[idx[b]] })
	out := make([]K, len(keys))
	for i, j := range idx {
		out[i] = keys[j]
	}
	permute(len(out), func(i, j int) { out[i], out[j] = out[j], out[i] })
	return out
}

//go:norace
func permute(n int, swap func(i, j int)) {
	s := active
	if s == nil || n < 2 {
		return
	}
	s.MapPerms++
	for i := n - 1; i > 0; i-- {
		j := s.draw(StreamMap, i+1)
		if j != i {
			swap(i, j)
		}
	}
}

func keyString(k any) string {
	if ider, ok := k.(interface{ ID() string }); ok {
		id := ider.ID()
		// ids are base-36 counters: order numerically by length then text
		return fmt.Sprintf("id:%04d:%s", len(id), id)
	}
	return fmt.Sprintf("%T|%v", k, k)
}

// ---------------------------------------------------------------------------
// Introspection for the harness (call after Run, or from the token holder).

//go:norace
func (s *Sim) Steps() int { return s.steps }

//go:norace
func (s *Sim) Switches() int { return s.switches }

//go:norace
func (s *Sim) Hash() uint64 { return s.hash }

//go:norace
func (s *Sim) SwitchPairs() int { return s.pairs }

//go:norace
func (s *Sim) Trace() []TraceEntry { return s.trace[:s.traceLen] }

//go:norace
func (s *Sim) Tasks() []*Task {
	out := make([]*Task, s.n)
	for i := 0; i < s.n; i++ {
		out[i] = s.tasks[i]
	}
	return out
}

//go:norace
func (s *Sim) LiveSpawned() int {
	n := 0
	for i := 0; i < s.n; i++ {
		if !s.tasks[i].Client && s.tasks[i].state != stDone {
			n++
		}
	}
	return n
}

//go:norace
func (t *Task) Site() int { return t.site }

//go:norace
func (t *Task) Done() bool { return t.state == stDone }
