//go:build race

package simrt

import "runtime"

// RaceBuild reports whether the binary was built with -race.
const RaceBuild = true

func raceDisable() { runtime.RaceDisable() }
func raceEnable()  { runtime.RaceEnable() }
