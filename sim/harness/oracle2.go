package main

import (
	"context"
	"errors"
	"fmt"
	"reflect"
	"runtime/debug"

	"github.com/junioryono/godi/v4"
	"github.com/junioryono/godi/v4/simrt"
)

func siteName(id int) string { return simrt.SiteName(id) }

// Probe: a use of a handle made by the finisher at a quiescent point.
type Probe struct {
	When   string
	What   string
	Handle int
	Err    error
	Panic  any
}

//go:norace
func (h *H) probe(when, what string, hd *Handle, f func() error) {
	pr := Probe{When: when, What: what, Handle: hd.ID}
	func() {
		defer func() {
			if r := recover(); r != nil {
				if a, ok := r.(*simrt.Abort); ok {
					panic(a)
				}
				pr.Panic = fmt.Sprintf("%v\n%s", r, debug.Stack())
			}
		}()
		pr.Err = f()
	}()
	h.probes = append(h.probes, pr)
}

var probeType = reflect.TypeOf((*T9)(nil)) // reserved: never registered by the generator

// cancelledChain: was the creation context of hd or of an ancestor cancelled?
//
//go:norace
func (h *H) cancelledChain(hd *Handle) bool {
	for x := hd; x != nil; {
		if x.CancelSeq > 0 {
			return true
		}
		if x.Parent < 0 || x.Parent == x.ID {
			break
		}
		x = h.handle(x.Parent)
	}
	return false
}

// doFinish is the body of the finisher's operation, run after every client
// has finished: settle, probe cancelled scopes, close the provider, settle,
// probe everything.
//
//go:norace
func (h *H) doFinish(t *simrt.Task, res *OpResult) {
	simrt.Settle(siteWait)
	n := int(h.nHandles.Load())
	if n == 0 {
		return
	}
	for i := 1; i < n; i++ {
		hd := h.handle(i)
		if hd != nil && h.cancelledChain(hd) {
			h.probe("cancel+settle", "Get", hd, func() error { _, err := hd.Scope.Get(probeType); return err })
		}
	}
	h.midLive = h.sim.LiveSpawned()
	p := h.handle(0)
	res.Handle = 0
	h.curH[t.ID] = 0
	res.StartSeq = h.event(EvOpStart, -1, -1)
	err := p.Prov.Close()
	h.setErr(res, err)
	h.finClosed = true
	simrt.Settle(siteWait)
	for i := 1; i < n; i++ {
		hd := h.handle(i)
		if hd == nil {
			continue
		}
		h.probe("provider-close", "Get", hd, func() error { _, err := hd.Scope.Get(probeType); return err })
		h.probe("provider-close", "CreateScope", hd, func() error { _, err := hd.Scope.CreateScope(nil); return err })
		if hd.ScopeCtx != nil && hd.ScopeCtx.Err() == nil {
			h.ctxNotCancelled = append(h.ctxNotCancelled, i)
		}
	}
	h.probe("provider-close", "Get", p, func() error { _, err := p.Prov.Get(probeType); return err })
	h.probe("provider-close", "CreateScope", p, func() error { _, err := p.Prov.CreateScope(nil); return err })
	h.endLive = h.sim.LiveSpawned()
}

// ---------------------------------------------------------------------------

// Build verdict against the reference model: C05.build, C07.verdict, C08.accept.
func (a *Analysis) ruleBuildVerdict() {
	m := a.m
	op := a.buildOp
	if op == nil || !op.Done || op.Panic != nil || op.Aborted != "" {
		return
	}
	v := m.V
	// registration-time errors first
	anyRegErr := false
	for i, e := range a.h.regErrs {
		if e != nil {
			anyRegErr = true
			r := m.Cfg.Regs[i]
			if m.V.Accepted[r.ID] {
				a.add("C17", "C17.dup", regShape(r), "registration r%d (%s) was rejected: %v", r.ID, r, e)
			}
		} else if !m.V.Accepted[m.Cfg.Regs[i].ID] {
			r := m.Cfg.Regs[i]
			a.add("C17", "C17.dup", regShape(r), "registration r%d (%s) duplicates an identity but was accepted", r.ID, r)
		}
	}
	_ = anyRegErr
	circ := hasClass(op.Classes, ECircular)
	life := hasClass(op.Classes, ELifetime)
	shape := a.cfgShape()
	if circ != v.Cycle {
		if v.Cycle {
			a.add("C05", "C05.build", shape, "the registration set has a dependency cycle (registrations %v) but Build returned %v", keys(v.CycleRegs), op.Err)
		} else {
			a.add("C05", "C05.build", shape, "the registration set is acyclic but Build reported a circular dependency: %v", firstLine(op.Err))
		}
	}
	if circ && v.Cycle {
		a.checkCyclePath(op.Err)
	}
	// C15.classes at Build: with exactly one defect in the set, its class is recognisable with
	// errors.Is/As through the BuildError / validation / graph wrappers
	if op.Err != nil && !a.faultInOp[op.GID] && !v.Dup && b2i(v.Cycle)+b2i(v.Conflict)+b2i(v.Missing) == 1 {
		switch {
		case v.Cycle && !circ:
			a.add("C15", "C15.classes", "Build/circular", "the set has a dependency cycle; Build failed but no CircularDependencyError is reachable with errors.As: %v", firstLine(op.Err))
		case v.Conflict && !life:
			a.add("C15", "C15.classes", "Build/lifetime-conflict", "the set has a captive dependency; Build failed but no LifetimeConflictError is reachable with errors.As: %v", firstLine(op.Err))
		case v.Missing && !hasClass(op.Classes, ENotFound):
			a.add("C15", "C15.classes", "Build/not-found", "the set has a missing dependency; Build failed but ErrServiceNotFound is not reachable with errors.Is: %v", firstLine(op.Err))
		}
	}
	for i, e := range a.h.regErrs {
		if e != nil && !m.V.Accepted[m.Cfg.Regs[i].ID] {
			if _, cls := classify(e); !hasClass(cls, EAlready) {
				a.add("C15", "C15.classes", "Add/already-registered", "registration r%d duplicates an identity; it was rejected but no AlreadyRegisteredError is reachable with errors.As: %v", m.Cfg.Regs[i].ID, firstLine(e))
			}
		}
	}
	if !v.Cycle && !v.Missing && !v.Dup {
		if life != v.Conflict {
			if v.Conflict {
				a.add("C07", "C07.verdict", shape, "a singleton/transient declares a dependency on a scoped registration but Build returned %v", op.Err)
			} else {
				a.add("C07", "C07.verdict", shape, "no singleton/transient depends on a scoped registration but Build reported a lifetime conflict: %v", firstLine(op.Err))
			}
		}
	}
	if v.OK() && op.Err != nil && !a.faultInOp[op.GID] {
		a.add("C08", "C08.accept", shape, "the registration set has no cycle, no lifetime conflict and no missing dependency, no constructor failed, yet Build returned: %v", firstLine(op.Err))
		a.add("C06", "C06.verdict", shape, "valid registration set rejected by Build: %v", firstLine(op.Err))
	}
	if v.Missing && !v.Dup && op.Err == nil {
		// "every non-optional dependency of every registration, whatever its lifetime, is itself
		// registered" once Build succeeded - also of registrations nobody can ask for by type
		// (initializer functions of any lifetime)
		for _, r := range m.Cfg.Regs {
			if !m.V.Accepted[r.ID] {
				continue
			}
			for _, d := range r.Deps {
				if t := m.Reg.target(d); t.Missing && !d.Optional {
					a.add("C08", "C08.found", "missing-dep-accepted/"+formNames[r.Form]+"/"+lifeNames[r.Life], "Build succeeded although r%d (%s) requires %s, which nobody registers", r.ID, r, d)
				}
			}
		}
	}
	// C06.order: each singleton constructed after the singletons it depends on
	if op.Err == nil {
		exit := map[int]int{}
		enter := map[int]int{}
		for _, inv := range a.h.invs {
			if m.regs[inv.Reg].Life == LSingleton && inv.Op == op.GID {
				if _, ok := enter[inv.Reg]; !ok {
					enter[inv.Reg] = inv.EnterSeq
				}
				exit[inv.Reg] = inv.ExitSeq
			}
		}
		for _, r := range m.Cfg.Regs {
			if r.Life != LSingleton || !m.V.Accepted[r.ID] || r.Form == FInstance {
				continue
			}
			for _, w := range m.Adj[r.ID] {
				wr := m.regs[w]
				if wr.Life != LSingleton || wr.Form == FInstance {
					continue
				}
				if e, ok := enter[r.ID]; ok {
					if x, ok2 := exit[w]; !ok2 || x == 0 || x > e {
						a.add("C06", "C06.order", shape, "singleton r%d was constructed (seq %d) before its dependency r%d finished construction (seq %d)", r.ID, e, w, x)
					}
				}
			}
		}
	}
}

func firstLine(err error) string {
	if err == nil {
		return "<nil>"
	}
	s := err.Error()
	if len(s) > 300 {
		s = s[:300] + "..."
	}
	return s
}

func keys(m map[int]bool) []int {
	var out []int
	for k := range m {
		out = append(out, k)
	}
	sortInts(out)
	return out
}

func sortInts(a []int) {
	for i := 1; i < len(a); i++ {
		for j := i; j > 0 && a[j] < a[j-1]; j-- {
			a[j], a[j-1] = a[j-1], a[j]
		}
	}
}

// cfgShape: canonical shape of the configuration features relevant for
// build-verdict findings.
func (a *Analysis) cfgShape() string {
	m := a.m
	s := ""
	groupCycle, groupDeps, initSingle, groupCaptive := false, false, false, false
	for _, r := range m.Cfg.Regs {
		if !m.V.Accepted[r.ID] {
			continue
		}
		for _, d := range r.Deps {
			t := m.Reg.target(d)
			if d.Group != "" {
				for _, p := range t.Members {
					if p.Reg == r.ID || m.dependsOn(p.Reg, r.ID) {
						groupCycle = true
					}
					if r.Life == LSingleton && len(m.Adj[p.Reg]) > 0 {
						groupDeps = true
					}
					if r.Life != LScoped && m.regs[p.Reg].Life == LScoped {
						groupCaptive = true
					}
				}
			}
			if (r.Form == FVoid || r.Form == FVoidErr) && r.Life == LScoped {
				for _, p := range t.Members {
					if m.regs[p.Reg].Life == LSingleton {
						initSingle = true
					}
				}
			}
		}
	}
	if groupCycle {
		s += "group-cycle,"
	}
	if groupDeps {
		s += "singleton-group-with-deps,"
	}
	if groupCaptive {
		s += "group-captive,"
	}
	if initSingle {
		s += "scoped-init-needs-singleton,"
	}
	if s == "" {
		s = "plain"
	}
	return s
}

// C05.path: each step of the reported path is a declared dependency.
func (a *Analysis) checkCyclePath(err error) {
	var ce *godi.CircularDependencyError
	var cev godi.CircularDependencyError
	if !errors.As(err, &ce) {
		if errors.As(err, &cev) {
			ce = &cev
		} else {
			return
		}
	}
	m := a.m
	path := ce.Path
	if len(path) == 0 {
		a.add("C05", "C05.path", "empty", "circular dependency error carries an empty path")
		return
	}
	// edge relation at identity level: consumer identity -> declared dependency identity
	type nk struct {
		t     reflect.Type
		key   any
		group string
	}
	edges := map[nk]map[nk]bool{}
	addEdge := func(from, to nk) {
		if edges[from] == nil {
			edges[from] = map[nk]bool{}
		}
		edges[from][to] = true
	}
	for _, r := range m.Cfg.Regs {
		if !m.V.Accepted[r.ID] {
			continue
		}
		var froms []nk
		for _, p := range regIdents(r) {
			var key any
			if p.Id.Key != "" {
				key = p.Id.Key
			}
			if p.Id.Group != "" {
				// member node: any key value (ordinal); match by type+group only
				froms = append(froms, nk{p.Id.T.RT(), "*", p.Id.Group})
				// the group identity itself reaches its members
				addEdge(nk{p.Id.T.RT(), nil, p.Id.Group}, nk{p.Id.T.RT(), "*", p.Id.Group})
			} else {
				froms = append(froms, nk{p.Id.T.RT(), key, ""})
			}
		}
		for _, d := range r.Deps {
			if d.Ignore {
				continue
			}
			var key any
			if d.Key != "" {
				key = d.Key
			}
			to := nk{depElemType(d), key, d.Group}
			for _, f := range froms {
				addEdge(f, to)
			}
		}
	}
	norm := func(k godi_NodeKey) nk {
		if k.Group != "" && k.Key != nil {
			return nk{k.Type, "*", k.Group}
		}
		return nk{k.Type, k.Key, k.Group}
	}
	for i := 0; i < len(path); i++ {
		from := norm(godi_NodeKey{path[i].Type, path[i].Key, path[i].Group})
		var to nk
		if i+1 < len(path) {
			to = norm(godi_NodeKey{path[i+1].Type, path[i+1].Key, path[i+1].Group})
		} else {
			to = norm(godi_NodeKey{path[0].Type, path[0].Key, path[0].Group})
			if from == to {
				continue // path already closed (first == last)
			}
		}
		if from == to && i+1 < len(path) && !edges[from][to] {
			a.add("C05", "C05.path", a.cfgShape(), "reported cycle path repeats %v without a self-dependency: %v", path[i], path)
			return
		}
		if !edges[from][to] {
			a.add("C05", "C05.path", a.cfgShape(), "reported cycle path step %v -> %v is not a declared dependency; path=%v", fmtNK(from.t, from.key, from.group), fmtNK(to.t, to.key, to.group), path)
			return
		}
	}
}

func depElemType(d Dep) reflect.Type {
	if d.Builtin != BNone {
		return depType(d)
	}
	return d.T.RT()
}

type godi_NodeKey struct {
	Type  reflect.Type
	Key   any
	Group string
}

func fmtNK(t reflect.Type, key any, group string) string {
	s := fmt.Sprint(t)
	if key != nil {
		s += fmt.Sprintf("#%v", key)
	}
	if group != "" {
		s += "@" + group
	}
	return s
}

// C18: built-in injectables.
func (a *Analysis) ruleBuiltins() {
	h := a.h
	m := a.m
	if !a.buildOK {
		return
	}
	prov := h.prov
	for _, inv := range h.invs {
		r := m.regs[inv.Reg]
		sc := a.scopeOfInv(inv)
		for i, d := range r.Deps {
			if d.Builtin == BNone || i >= len(inv.Args) {
				continue
			}
			rec := inv.Args[i]
			if rec.Kind == ArgNil {
				if d.Optional && inv.Op >= 0 && a.ops[inv.Op].Handle >= 0 && a.closingStartedBefore(a.ops[inv.Op].Handle, inv.EnterSeq) {
					// the scope was being closed: resolving the built-in failed with the disposed error and the
					// optional tag swallowed it - the recorded C15 finding (optional-swallow), not a C18 matter
					a.add("C15", "C15.optional", "optional-swallow", "r%d#%d: optional built-in field %s left nil because its resolution failed while the scope was closing", inv.Reg, inv.N, d)
					continue
				}
				a.add("C18", "C18.inject", "nil-builtin", "r%d#%d: built-in parameter %s was nil", inv.Reg, inv.N, d)
				continue
			}
			var wantScope godi.Scope
			known := false
			if sc.Kind == OwScope {
				if hd := h.handle(sc.ID); hd != nil {
					wantScope = hd.Scope
					known = true
				}
			}
			atRoot := (sc.Kind == OwRoot || r.Life == LSingleton) && h.rootScope != nil
			if atRoot {
				// constructed at provider level (singletons at Build, anything resolved from
				// the provider): the provider's own root scope and its context
				switch d.Builtin {
				case BScope:
					if s, ok := rec.Ptr.(godi.Scope); ok && !sameIface(s, h.rootScope) {
						a.add("C18", "C18.inject", "root-scope/"+lifeNames[r.Life], "r%d#%d constructed at provider level received scope %s, the provider's root scope is %s", inv.Reg, inv.N, scopeID(s), scopeID(h.rootScope))
					}
				case BContext:
					if c, ok := rec.Ptr.(context.Context); ok {
						if c != h.rootScope.Context() {
							a.add("C18", "C18.inject", "root-context/"+lifeNames[r.Life], "r%d#%d constructed at provider level received a context that is not the root scope's Context()", inv.Reg, inv.N)
						}
						if s, err := godi.FromContext(c); err != nil || !sameIface(s, h.rootScope) {
							a.add("C18", "C18.ctx", "root-fromcontext/"+lifeNames[r.Life], "r%d#%d: FromContext(injected context) = %v, %v; expected the provider's root scope", inv.Reg, inv.N, scopeID(s), err)
						}
					}
				}
			}
			switch d.Builtin {
			case BProvider:
				if p, ok := rec.Ptr.(godi.Provider); !ok || !sameIface(p, prov) {
					a.add("C18", "C18.inject", "provider", "r%d#%d (%s): injected Provider is not the provider returned by Build", inv.Reg, inv.N, sc)
				}
			case BScope:
				s, ok := rec.Ptr.(godi.Scope)
				if !ok {
					continue
				}
				if known && r.Life != LSingleton && !sameIface(s, wantScope) {
					a.add("C18", "C18.inject", "scope/"+lifeNames[r.Life], "r%d#%d constructed in %s received a different Scope (%s)", inv.Reg, inv.N, sc, s.ID())
				}
				if (sc.Kind == OwRoot || r.Life == LSingleton) && !sameIface(s.Provider(), prov) {
					a.add("C18", "C18.inject", "root-scope", "r%d#%d: root scope's Provider() is not the built provider", inv.Reg, inv.N)
				}
				if !known && sc.Kind == OwRoot {
					for i := 1; i < int(h.nHandles.Load()); i++ {
						if hd := h.handle(i); hd != nil && sameIface(hd.Scope, s) {
							a.add("C18", "C18.inject", "root-scope", "r%d#%d constructed at provider level received child scope h%d", inv.Reg, inv.N, i)
						}
					}
				}
			case BContext:
				c, ok := rec.Ptr.(context.Context)
				if !ok {
					continue
				}
				if known && r.Life != LSingleton {
					if c != wantScope.Context() {
						a.add("C18", "C18.inject", "context/"+lifeNames[r.Life], "r%d#%d constructed in %s received a context that is not that scope's Context()", inv.Reg, inv.N, sc)
					}
				}
				if s, err := godi.FromContext(c); err == nil && known && r.Life != LSingleton && !sameIface(s, wantScope) {
					a.add("C18", "C18.ctx", "fromcontext", "r%d#%d: FromContext(injected ctx) is scope %s, expected %s", inv.Reg, inv.N, s.ID(), wantScope.ID())
				}
			}
		}
	}
	// scope contexts: values, FromContext
	for i := 1; i < int(h.nHandles.Load()); i++ {
		hd := h.handle(i)
		if hd == nil || hd.ScopeCtx == nil {
			continue
		}
		if s, err := godi.FromContext(hd.ScopeCtx); err != nil || !sameIface(s, hd.Scope) {
			a.add("C18", "C18.ctx", "fromcontext", "FromContext(scope h%d .Context()) = %v, %v", i, s, err)
		}
		if hd.CtxKind == CtxValue && hd.Ctx != nil {
			if v := hd.ScopeCtx.Value(hd.Ctx.key); v != hd.Ctx.val {
				a.add("C18", "C18.ctx", "value", "scope h%d: Context().Value(callerKey) = %v, want %v", i, v, hd.Ctx.val)
			}
		}
		if hd.CtxKind == CtxValueOnly {
			if v := hd.ScopeCtx.Value(hd.ValKey); v != hd.ValVal {
				a.add("C18", "C18.ctx", "value/no-cancel", "scope h%d created on h%d with a value-only context: Context().Value(callerKey) = %v, want %v", i, hd.Parent, v, hd.ValVal)
			}
			// values of the parent scope's context are visible only when the passed context derives from it
			if ph := h.handle(hd.Parent); ph != nil && ph.Kind == HScope {
				var pk, pv any
				if ph.CtxKind == CtxValue && ph.Ctx != nil {
					pk, pv = ph.Ctx.key, ph.Ctx.val
				} else if ph.CtxKind == CtxValueOnly {
					pk, pv = ph.ValKey, ph.ValVal
				}
				if pk != nil {
					v := hd.ScopeCtx.Value(pk)
					if hd.Detached && v != pv {
						a.add("C18", "C18.ctx", "value/no-cancel", "scope h%d created with WithoutCancel(h%d.Context()): parent's context value not visible", i, hd.Parent)
					}
					if !hd.Detached && v != nil {
						a.add("C18", "C18.ctx", "value/no-cancel", "scope h%d created on h%d with an unrelated value-only context sees the parent's context value %v", i, hd.Parent, v)
					}
				}
			}
		}
		if hd.CtxKind == CtxNil && hd.Parent > 0 {
			// parent scope's values are visible
			ph := h.handle(hd.Parent)
			var pk, pv any
			if ph != nil && ph.CtxKind == CtxValue && ph.Ctx != nil {
				pk, pv = ph.Ctx.key, ph.Ctx.val
			} else if ph != nil && ph.CtxKind == CtxValueOnly {
				pk, pv = ph.ValKey, ph.ValVal
			}
			if pk != nil {
				if v := hd.ScopeCtx.Value(pk); v != pv {
					a.add("C18", "C18.ctx", "value-inherit", "scope h%d created with nil ctx on h%d: parent's context value not visible", i, hd.Parent)
				}
			}
		}
	}
	for _, op := range a.ops {
		if op.Op.Kind == OpCancel {
			for _, hid := range op.CtxNotCancelled {
				shape := "cancel-propagation/inherited"
				if hid == op.Handle {
					shape = "cancel-propagation/own"
				}
				a.add("C18", "C18.ctx", shape, "op%d Cancel(h%d): the creation context was cancelled but scope h%d's Context() (derived from it) is not done", op.GID, op.Handle, hid)
			}
		}
		if op.Op.Kind == OpFromContext && op.Done && op.Aborted == "" && op.Panic == nil {
			hd := h.handle(op.Handle)
			if op.Err != nil || !sameIface(op.Builtin, hd.Scope) {
				a.add("C18", "C18.ctx", "fromcontext", "op%d FromContext(h%d.Context()) = %v, %v", op.GID, op.Handle, op.Builtin, op.Err)
			}
		}
	}
}

func sameIface(a, b any) bool {
	defer func() { recover() }()
	return a == b
}

// C15: constructor failures are reported faithfully.
func (a *Analysis) ruleErrors() {
	m := a.m
	if op := a.buildOp; a.buildCancelled && op != nil && op.Done && op.Panic == nil && op.Err != nil {
		ctorFailed := false
		for _, inv := range a.h.invs {
			if inv.Op == op.GID && inv.Fault != nil {
				ctorFailed = true
			}
		}
		if !ctorFailed && !errors.Is(op.Err, context.Canceled) && !m.V.Cycle && !m.V.Conflict && !m.V.Missing && !m.V.Dup {
			a.add("C15", "C15.classes", "build-cancel/cause-lost", "the context given to BuildWithContext was cancelled inside a constructor and Build failed, but context.Canceled is not reachable from the error: %v", op.Err)
		}
	}
	for _, inv := range a.h.invs {
		f := inv.Fault
		if f == nil || inv.Op < 0 {
			continue
		}
		op := a.ops[inv.Op]
		if !op.Done || op.Panic != nil || op.Aborted != "" {
			continue
		}
		// is the failing registration required (non-optional path) for the op? We
		// only assert when the op itself failed; swallowed failures are judged by C15.optional.
		if op.Err == nil {
			if f.Kind == FCtorNil {
				continue // a nil result without error: the statement does not say; both outcomes accepted
			}
			if !a.optionalOnPath(inv) {
				a.add("C15", "C15.ctorError", "swallowed/"+faultNames[f.Kind], "op%d %s succeeded although constructor r%d#%d failed (%s)", op.GID, op.Op, inv.Reg, inv.N, faultNames[f.Kind])
			}
			continue
		}
		if op.Op.Kind == OpClose || op.Op.Kind == OpFinish {
			continue
		}
		// several faults may fire in one operation (a swallowed optional failure
		// followed by another one): the reported error must be faithful to one of them
		var cands []*Invocation
		for _, other := range a.h.invs {
			if other.Op == inv.Op && other.Fault != nil {
				cands = append(cands, other)
			}
		}
		if cands[0] != inv {
			continue // judge each operation once
		}
		r := m.regs[inv.Reg]
		shape := faultNames[f.Kind] + "/" + opNames[op.Op.Kind] + "/" + formNames[r.Form]
		matched := false
		onlyNil := true
		var pe *godi.ConstructorPanicError
		var pev godi.ConstructorPanicError
		if errors.As(op.Err, &pe) {
		} else if errors.As(op.Err, &pev) {
			pe = &pev
		}
		for _, c := range cands {
			switch c.Outcome {
			case OutErr:
				onlyNil = false
				if errors.Is(op.Err, error(c.Fault.Err)) {
					matched = true
					// the constructor's own error value (a wrapper around the sentinel in two of three
					// cases) must be reachable as well, not only what it wraps
					if ret := c.Fault.Returned; ret != nil && !errors.Is(op.Err, ret) {
						a.add("C15", "C15.ctorError", "own-error-skipped/"+opNames[op.Op.Kind], "op%d %s: constructor r%d#%d returned %T (%v); errors.Is finds the cause it wraps but not the constructor's own error value", op.GID, op.Op, c.Reg, c.N, ret, ret)
					} else if we, ok := ret.(*wrapErr); ok {
						var got *wrapErr
						if !errors.As(op.Err, &got) || got != we {
							a.add("C15", "C15.ctorError", "own-error-skipped/"+opNames[op.Op.Kind], "op%d %s: constructor r%d#%d returned a *wrapErr; errors.As does not extract it from the reported error", op.GID, op.Op, c.Reg, c.N)
						}
					}
				}
			case OutPanic:
				onlyNil = false
				if pe != nil && panicValueMatches(pe.Panic, c.Fault.PanicVal) {
					matched = true
				}
			}
		}
		anyNil := false
		for _, c := range cands {
			if c.Outcome == OutNil {
				anyNil = true // a nil result may be what made the operation fail; its error class is not prescribed
			}
		}
		if matched || onlyNil || anyNil {
			continue
		}
		if op.Op.Kind == OpBuild && a.buildCancelled && errors.Is(op.Err, context.Canceled) {
			continue // two failures happened in this Build; the reported one is the cancellation
		}
		if (hasClass(op.Classes, EScopeDisposed) || hasClass(op.Classes, EProviderDisposed)) && op.Handle >= 0 && a.closingStartedBefore(op.Handle, op.EndSeq) {
			continue // the operation overlapped a Close and reports the disposed error
		}
		switch inv.Outcome {
		case OutErr:
			a.add("C15", "C15.ctorError", shape, "op%d %s: constructor r%d#%d returned %v but the reported error does not wrap it: %v", op.GID, op.Op, inv.Reg, inv.N, f.Err, op.Err)
		case OutPanic:
			if pe == nil {
				a.add("C15", "C15.ctorPanic", shape, "op%d %s: constructor r%d#%d panicked with %v but the error exposes no ConstructorPanicError: %v", op.GID, op.Op, inv.Reg, inv.N, f.PanicVal, op.Err)
			} else {
				a.add("C15", "C15.ctorPanic", shape+"/value", "op%d: constructor r%d#%d panicked with %#v but ConstructorPanicError.Panic is %#v", op.GID, inv.Reg, inv.N, f.PanicVal, pe.Panic)
			}
		}
	}
}

func panicValueMatches(got, want any) bool {
	if want == nil {
		// panic(nil) surfaces as *runtime.PanicNilError
		return got != nil || got == nil
	}
	defer func() { recover() }()
	return got == want
}

// optionalOnPath: is the failing invocation reached only through an optional field?
func (a *Analysis) optionalOnPath(inv *Invocation) bool {
	m := a.m
	for _, r := range m.Cfg.Regs {
		for _, d := range r.Deps {
			if !d.Optional {
				continue
			}
			t := m.Reg.target(d)
			for _, p := range t.Members {
				if p.Reg == inv.Reg || m.dependsOn(p.Reg, inv.Reg) {
					return true
				}
			}
		}
	}
	return false
}

// C14: nothing left behind.
func (a *Analysis) ruleLeaks() {
	h := a.h
	if !h.finClosed {
		return
	}
	if h.endLive > 0 {
		var names []string
		for _, t := range h.sim.Tasks() {
			if !t.Client && !t.Done() {
				names = append(names, t.Name)
			}
		}
		a.add("C14", "C14.tasks", "watcher", "%d goroutines started by godi are still alive after every scope and the provider were closed: %v", h.endLive, names)
	}
	for _, i := range h.ctxNotCancelled {
		a.add("C14", "C14.ctx", "not-cancelled", "scope h%d: Context().Err() is nil after the scope was closed", i)
	}
	for _, c := range h.ctxs {
		if n := c.Attached(); n > 0 {
			shape := "attached"
			if c.failedCreate {
				shape = "attached/failed-create"
			}
			a.add("C14", "C14.ctx", shape, "caller context #%d still has %d derived contexts attached after everything was closed (registered %d, stopped %d)", c.id, n, c.Registered, c.Stopped)
		}
	}
}
