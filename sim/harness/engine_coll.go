package main

import (
	"errors"
	"fmt"
	"sort"
	"strings"
	"time"

	"github.com/junioryono/godi/v4"
	"github.com/junioryono/godi/v4/simrt"
)

// collEngine (C17): histories of Add*/Remove/RemoveKeyed/query/Build calls on
// one collection against a reference registry, with rejected calls as the
// fault. Sequential API (the collection is documented as not thread-safe), run
// inside one simulated task so that Build sees simulator-chosen map orders.
type collEngine struct{}

func (e *collEngine) Name() string { return "collection-sim" }

const (
	cAdd = iota
	cAddInvalid
	cRemove
	cRemoveKeyed
	cBuild
	cResolveAll // on the most recent provider
	cQueries
)

type cOp struct {
	Kind   int
	Reg    *Reg
	Id     Ident
	Why    string
	IntKey int // RemoveKeyed with an int key (no registration ever has one): must be a no-op
}

func (o cOp) String() string {
	switch o.Kind {
	case cAdd:
		return "Add " + o.Reg.String()
	case cAddInvalid:
		return "Add(invalid: " + o.Why + ") " + o.Reg.String()
	case cRemove:
		return "Remove(" + o.Id.T.String() + ")"
	case cRemoveKeyed:
		if o.IntKey > 0 {
			return fmt.Sprintf("RemoveKeyed(%s, int %d)", o.Id.T, o.IntKey)
		}
		return fmt.Sprintf("RemoveKeyed(%s, %s)", o.Id.T, o.Id.Key)
	case cBuild:
		return "Build"
	case cResolveAll:
		return "ResolveAll(previous provider)"
	}
	return "queries"
}

type collCase struct {
	Ops []cOp
}

func (c *collCase) Describe() map[string]any {
	var s []string
	for _, o := range c.Ops {
		s = append(s, o.String())
	}
	return map[string]any{"engine": "collection-sim", "ops": s}
}

// small pools so that collisions are frequent
func decodeCollCase(tier string, idx int, tape *Tape) *collCase {
	c := &collCase{}
	nops := 2 + tape.Choose(StOps, 10)
	if tier == "thorough" {
		nops += tape.Choose(StOps, 10)
	}
	nregs := 0
	types := 4
	pickT := func() TypeRef {
		if tape.Choose(StCfg, 2) == 0 {
			return TypeRef(tape.Choose(StCfg, types))
		}
		return TypeRef(NT + tape.Choose(StCfg, types))
	}
	var plainTypes, depTypes []TypeRef
	var groupsUsed []Ident
	newReg := func() *Reg {
		r := &Reg{ID: nregs}
		nregs++
		r.Life = tape.Choose(StCfg, 3)
		switch tape.Choose(StCfg, 10) {
		case 0, 1:
			r.Form = FMulti
		case 2:
			r.Form = FResult
		case 3:
			r.Form = FVoid
			if r.Life == LTransient {
				r.Life = LScoped
			}
		case 4:
			r.Form = FInstance
			r.Life = LSingleton
		default:
			r.Form = FSingle
		}
		if r.Form != FInstance && tape.Choose(StCfg, 3) == 0 {
			r.Form++
		}
		n := 0
		switch r.Form {
		case FSingle, FSingleErr, FInstance:
			n = 1
		case FMulti, FMultiErr:
			n = 2 + tape.Choose(StCfg, 2)
		case FResult, FResultErr:
			n = 1 + tape.Choose(StCfg, 3)
		}
		seenT := map[TypeRef]bool{}
		for j := 0; j < n; j++ {
			t := pickT()
			if r.Form == FMulti || r.Form == FMultiErr {
				// a multi-return constructor with two results of one type is a
				// different (degenerate) input; keep result types distinct
				for k := 0; seenT[t] && k < 2*types; k++ {
					t = TypeRef((int(t) + 1) % (NT + types))
					if int(t) >= types && int(t) < NT {
						t = TypeRef(NT)
					}
				}
				seenT[t] = true
			}
			o := Out{T: t, Concrete: t}
			if r.Form == FResult || r.Form == FResultErr {
				if tape.Choose(StCfg, 3) == 0 {
					o.Key = keyPool[tape.Choose(StCfg, 2)]
					if tape.Choose(StCfg, 5) == 0 {
						// a field tagged with a name AND a group: godi may refuse the registration (as it
						// refuses Name+Group options) or serve the value under both - see ambiguousReg
						o.Group = groupPool[tape.Choose(StCfg, 2)]
					}
				}
			}
			r.Outs = append(r.Outs, o)
		}
		if (r.Form == FVoid || r.Form == FVoidErr) && tape.Choose(StCfg, 3) == 0 {
			// a constructor without a service result registered under a name: the
			// identity (struct{}, name) - collModel.add
			r.Name = keyPool[tape.Choose(StCfg, 2)]
		}
		if r.Form == FSingle || r.Form == FSingleErr || r.Form == FInstance {
			switch tape.Choose(StCfg, 6) {
			case 0:
				r.Name = keyPool[tape.Choose(StCfg, 2)]
			case 1, 3:
				r.Group = groupPool[tape.Choose(StCfg, 2)]
				if len(groupsUsed) > 0 && tape.Choose(StCfg, 3) != 0 {
					// another member of a group that already has members
					gu := groupsUsed[tape.Choose(StCfg, len(groupsUsed))]
					r.Outs[0].T, r.Outs[0].Concrete, r.Group = gu.T, gu.T, gu.Group
				}
				groupsUsed = append(groupsUsed, Ident{T: r.Outs[0].T, Group: r.Group})
			case 2:
				r.As = []int{tape.Choose(StCfg, 2)}
			}
		}
		// dependencies on pool types: whether they are registered (and with which
		// lifetime) changes as the history goes on
		if r.Form != FInstance && tape.Choose(StCfg, 3) == 0 {
			nd := 1 + tape.Choose(StCfg, 2)
			for j := 0; j < nd; j++ {
				t := pickT()
				if len(plainTypes) > 0 && tape.Choose(StCfg, 3) != 0 {
					t = plainTypes[tape.Choose(StCfg, len(plainTypes))] // something registered earlier in this history
				}
				r.Deps = append(r.Deps, Dep{T: t})
				depTypes = append(depTypes, t)
			}
		}
		if (r.Form == FSingle || r.Form == FSingleErr || r.Form == FInstance) && r.Name == "" && r.Group == "" && len(r.As) == 0 {
			plainTypes = append(plainTypes, r.Outs[0].T)
		}
		return r
	}
	for i := 0; i < nops; i++ {
		switch tape.Choose(StOps, 14) {
		case 0, 1, 2, 3, 4, 5:
			c.Ops = append(c.Ops, cOp{Kind: cAdd, Reg: newReg()})
		case 6:
			r := newReg()
			op := cOp{Kind: cAddInvalid, Reg: r}
			switch tape.Choose(StOps, 2) {
			case 0:
				if r.Form == FSingle || r.Form == FSingleErr || r.Form == FInstance {
					r.Name, r.Group = "k0", "g0"
					op.Why = "Name+Group"
				} else {
					op.Kind = cAdd
				}
			default:
				if r.Form == FSingle || r.Form == FSingleErr {
					r.Name = "bad`name"
					r.Group = ""
					op.Why = "backquote in name"
				} else {
					op.Kind = cAdd
				}
			}
			c.Ops = append(c.Ops, op)
		case 7, 8:
			t := pickT()
			if len(depTypes) > 0 && tape.Choose(StOps, 2) == 0 {
				t = depTypes[tape.Choose(StOps, len(depTypes))] // something another registration depends on
			}
			c.Ops = append(c.Ops, cOp{Kind: cRemove, Id: Ident{T: t}})
		case 9:
			t := pickT()
			if tape.Choose(StOps, 4) == 0 {
				t = voidRef()
			}
			if len(groupsUsed) > 0 && tape.Choose(StOps, 4) == 0 {
				// a key nobody registered: an int that happens to equal a group member's position
				gu := groupsUsed[tape.Choose(StOps, len(groupsUsed))]
				c.Ops = append(c.Ops, cOp{Kind: cRemoveKeyed, Id: Ident{T: gu.T}, IntKey: 1 + tape.Choose(StOps, 2)})
				continue
			}
			c.Ops = append(c.Ops, cOp{Kind: cRemoveKeyed, Id: Ident{T: t, Key: keyPool[tape.Choose(StOps, 2)]}})
		case 10, 11:
			c.Ops = append(c.Ops, cOp{Kind: cBuild})
		case 12:
			c.Ops = append(c.Ops, cOp{Kind: cResolveAll})
		default:
			c.Ops = append(c.Ops, cOp{Kind: cQueries})
		}
	}
	c.Ops = append(c.Ops, cOp{Kind: cBuild})
	if tape.Choose(StOps, 2) == 1 {
		// edits after the last Build: the provider it returned must not notice them
		for k := 1 + tape.Choose(StOps, 2); k > 0; k-- {
			switch tape.Choose(StOps, 4) {
			case 0:
				c.Ops = append(c.Ops, cOp{Kind: cAdd, Reg: newReg()})
			case 1:
				c.Ops = append(c.Ops, cOp{Kind: cRemove, Id: Ident{T: pickT()}})
			default:
				// preferably a named constructor without a service result (a scope initializer)
				c.Ops = append(c.Ops, cOp{Kind: cRemoveKeyed, Id: Ident{T: voidRef(), Key: keyPool[tape.Choose(StOps, 2)]}})
			}
		}
	}
	c.Ops = append(c.Ops, cOp{Kind: cResolveAll})
	return c
}

// collModel: the reference registry, applied call by call.
type collModel struct {
	services map[Ident]Provision
	groups   map[Ident][]Provision
	order    []Provision // every live provision incl. one pseudo-provision per void registration
	regs     map[int]*Reg
	touched  map[int]bool // registrations that lost an identity through Remove* (multi-output: unspecified)
}

func newCollModel() *collModel {
	return &collModel{services: map[Ident]Provision{}, groups: map[Ident][]Provision{}, regs: map[int]*Reg{}, touched: map[int]bool{}}
}

// add returns true if accepted.
// ambiguousReg: a result-object field carries both a name and a group tag.
func ambiguousReg(r *Reg) bool {
	for _, o := range r.Outs {
		if o.Key != "" && o.Group != "" {
			return true
		}
	}
	return false
}

func (m *collModel) add(r *Reg) bool {
	m.regs[r.ID] = r
	ps := regIdents(r)
	if ambiguousReg(r) {
		// if accepted, such a field is a keyed service and a group member at once
		var split []Provision
		for _, p := range ps {
			if p.Id.Key != "" && p.Id.Group != "" {
				split = append(split, Provision{Id: Ident{T: p.Id.T, Key: p.Id.Key}, Reg: p.Reg, OutIdx: p.OutIdx},
					Provision{Id: Ident{T: p.Id.T, Group: p.Id.Group}, Reg: p.Reg, OutIdx: p.OutIdx})
				continue
			}
			split = append(split, p)
		}
		ps = split
	}
	if (r.Form == FVoid || r.Form == FVoidErr) && r.Name != "" {
		// named constructor without a service result: occupies (struct{}, name)
		id := Ident{T: voidRef(), Key: r.Name}
		if _, ok := m.services[id]; ok {
			return false
		}
		p := Provision{Id: id, Reg: r.ID, OutIdx: -1}
		m.services[id] = p
		m.order = append(m.order, p)
		return true
	}
	seen := map[Ident]bool{}
	for _, p := range ps {
		if p.Id.Group != "" {
			continue
		}
		if _, ok := m.services[p.Id]; ok || seen[p.Id] {
			return false
		}
		seen[p.Id] = true
	}
	if len(ps) == 0 {
		m.order = append(m.order, Provision{Reg: r.ID, OutIdx: -1})
	}
	for _, p := range ps {
		if p.Id.Group != "" {
			gk := Ident{T: p.Id.T, Group: p.Id.Group}
			p.Ord = len(m.groups[gk]) + 1
			m.groups[gk] = append(m.groups[gk], p)
		} else {
			m.services[p.Id] = p
		}
		m.order = append(m.order, p)
	}
	return true
}

func (m *collModel) remove(id Ident) {
	p, ok := m.services[id]
	if !ok {
		return
	}
	delete(m.services, id)
	kept := m.order[:0]
	for _, x := range m.order {
		if !(x.Id == id && x.Reg == p.Reg && x.OutIdx == p.OutIdx) {
			kept = append(kept, x)
		}
	}
	m.order = kept
	// only a registration that keeps other identities is in the unspecified zone
	// ("what do the sibling outputs become"); a completely removed one is simply gone
	for _, x := range m.order {
		if x.Reg == p.Reg {
			m.touched[p.Reg] = true
			break
		}
	}
}

// tainted: some registration that lost one of its identities through Remove*
// produces (or produced) a value of this identity's type. What its sibling
// outputs become is not specified by the property; nothing is asserted there.
func (m *collModel) tainted(id Ident) bool {
	for reg := range m.touched {
		r := m.regs[reg]
		if len(r.Outs) < 2 {
			continue
		}
		for _, p := range regIdents(r) {
			if p.Id.T == id.T {
				return true
			}
		}
	}
	return false
}

// live: does registration r still have all the identities it registered?
func (m *collModel) liveFully(reg int) bool {
	if m.touched[reg] {
		return false
	}
	for _, p := range m.order {
		if p.Reg == reg {
			return true
		}
	}
	return false
}

func (m *collModel) gone(reg int) bool {
	for _, p := range m.order {
		if p.Reg == reg {
			return false
		}
	}
	return true
}

func (m *collModel) config() *Config {
	// a configuration holding exactly the live registrations, for the verdict
	c := &Config{}
	ids := map[int]bool{}
	for _, p := range m.order {
		ids[p.Reg] = true
	}
	var keys []int
	for k := range ids {
		keys = append(keys, k)
	}
	sort.Ints(keys)
	for _, k := range keys {
		c.Regs = append(c.Regs, m.regs[k])
	}
	return c
}

// reducedConfig: the live registrations with the removed outputs taken out of the result lists of
// partially removed multi-output registrations. nil when that cannot be expressed faithfully (options
// that attach to a position in the result list, aliases).
func (m *collModel) reducedConfig() *Config {
	c := &Config{}
	for _, r := range m.config().Regs {
		live := map[int]bool{}
		n := 0
		for _, p := range m.order {
			if p.Reg == r.ID {
				live[p.OutIdx] = true
				n++
			}
		}
		if n == len(regIdents(r)) {
			c.Regs = append(c.Regs, r)
			continue
		}
		if r.Name != "" || r.Group != "" || len(r.As) > 0 || len(r.Outs) < 2 {
			return nil
		}
		cp := *r
		cp.Outs = nil
		for i, o := range r.Outs {
			if live[i] {
				cp.Outs = append(cp.Outs, o)
			}
		}
		if len(cp.Outs) == 0 {
			return nil
		}
		c.Regs = append(c.Regs, &cp)
	}
	return c
}

func hasClassErr(err error, cls int) bool {
	_, c := classify(err)
	return hasClass(c, cls)
}

type descKey struct {
	T     string
	Key   string
	Group string
	Life  int
}

func (m *collModel) descMultiset() map[descKey]int {
	out := map[descKey]int{}
	for _, p := range m.order {
		r := m.regs[p.Reg]
		if p.OutIdx < 0 {
			k := descKey{T: "struct {}", Key: "void", Life: r.Life}
			if p.Id.Key != "" {
				k.Key = p.Id.Key
			}
			out[k]++
			continue
		}
		k := descKey{T: p.Id.T.RT().String(), Key: p.Id.Key, Group: p.Id.Group, Life: r.Life}
		if p.Id.Group != "" {
			k.Key = fmt.Sprint(p.Ord)
		}
		out[k]++
	}
	return out
}

// collOwnProp: the property this process checks (one property per process). A history goes on after a
// violation that belongs to another property, so that the own property's rules further down the
// history are still evaluated; it stops at the first violation of the own property.
var collOwnProp string

func stopOn(vs []Violation) bool {
	for _, v := range vs {
		if collOwnProp == "" || v.Prop == collOwnProp {
			return true
		}
	}
	return false
}

func (e *collEngine) Run(prop, tier string, idx int, tape *Tape) *RunOut {
	collOwnProp = prop
	c := decodeCollCase(tier, idx, tape)
	return e.exec(c, tape)
}

func (e *collEngine) exec(c *collCase, tape *Tape) *RunOut {
	out := &RunOut{Faults: map[string]int{}, Reach: map[string]int{}}
	var vs []Violation
	godi.SimResetCounters()
	sim := simrt.New(simrt.Config{Draw: func(stream, n int) int { return tape.Choose(StSched+stream, n) }})
	sim.AddClient("coll", nil, func(t *simrt.Task) {
		vs = runCollCase(c, tape, out)
	})
	v := sim.Run()
	for _, t := range sim.Tasks() {
		if t.Panic != nil {
			if te, ok := t.Panic.(troubleErr); ok {
				panic(te)
			}
			vs = append(vs, Violation{Prop: "C17", Rule: "C17.panic", Shape: "panic", Msg: fmt.Sprintf("collection operation panicked: %v\n%s", t.Panic, stackHead(string(t.Stack)))})
		}
	}
	if v.Stuck {
		vs = append(vs, Violation{Prop: "C17", Rule: "C17.stuck", Shape: "stuck", Msg: "collection task could make no progress"})
	}
	out.Violations = vs
	out.Steps = sim.Steps()
	out.SchedHash = sim.Hash()
	out.Describe = c.Describe()
	out.CaseHash = hashStr(fmt.Sprint(out.Describe["ops"]))
	out.NonTrivial = len(c.Ops) > 2
	out.Reach["sim.map_perms"] += sim.MapPerms
	return out
}

type builtProv struct {
	p     godi.Provider
	model *collModel    // snapshot of the model at Build
	seen  map[Ident]int // identity -> producing registration observed at first resolution (-1 = not found)
	inst  map[Ident]int // identity -> instance id (singleton / scoped-at-root)
}

func cloneCollModel(m *collModel) *collModel {
	c := newCollModel()
	for k, v := range m.services {
		c.services[k] = v
	}
	for k, v := range m.groups {
		c.groups[k] = append([]Provision(nil), v...)
	}
	c.order = append([]Provision(nil), m.order...)
	for k, v := range m.regs {
		c.regs[k] = v
	}
	for k, v := range m.touched {
		c.touched[k] = v
	}
	return c
}

func runCollCase(c *collCase, tape *Tape, out *RunOut) []Violation {
	var vs []Violation
	add := func(rule, shape, f string, a ...any) {
		vs = append(vs, Violation{Prop: "C17", Rule: rule, Shape: shape, Msg: fmt.Sprintf(f, a...)})
	}
	cfg := &Config{}
	for _, op := range c.Ops {
		if op.Reg != nil {
			cfg.Regs = append(cfg.Regs, op.Reg)
		}
	}
	h := newH(cfg, tape)
	coll := godi.NewCollection()
	m := newCollModel()
	var provs []*builtProv
	typesUsed := 4

	queries := func(when string) {
		for _, p := range m.order {
			if r := m.regs[p.Reg]; r != nil && ambiguousReg(r) {
				// how an accepted name+group field is counted / listed is not prescribed; what it
				// must be is resolvable (resolveAll)
				return
			}
		}
		// Count / ToSlice
		want := m.descMultiset()
		wantN := 0
		for _, n := range want {
			wantN += n
		}
		if coll.Count() != wantN {
			add("C17.queries", "count", "%s: Count()=%d, reference registry holds %d registrations", when, coll.Count(), wantN)
		}
		got := map[descKey]int{}
		for _, d := range coll.ToSlice() {
			if d == nil {
				continue
			}
			k := descKey{T: d.Type.String(), Group: d.Group, Life: int(d.Lifetime)}
			if d.Key != nil {
				k.Key = fmt.Sprint(d.Key)
			}
			if d.Type.String() == "struct {}" && k.Key != keyPool[0] && k.Key != keyPool[1] {
				k.Key = "void" // generated key of an unnamed constructor without a service result
			}
			got[k]++
		}
		if !sameDescSet(got, want) {
			add("C17.queries", "toslice", "%s: ToSlice() describes %v, reference registry %v", when, fmtDesc(got), fmtDesc(want))
		}
		for ti := 0; ti < 2*typesUsed+NI; ti++ {
			t := TypeRef(ti)
			if ti >= typesUsed && ti < 2*typesUsed {
				t = TypeRef(NT + ti - typesUsed)
			} else if ti >= 2*typesUsed {
				t = ifaceRef(ti - 2*typesUsed)
			}
			_, wantC := m.services[Ident{T: t}]
			if coll.Contains(t.RT()) != wantC {
				add("C17.queries", "contains", "%s: Contains(%s)=%v, reference %v", when, t, !wantC, wantC)
			}
			for _, k := range keyPool[:2] {
				_, wantK := m.services[Ident{T: t, Key: k}]
				if coll.ContainsKeyed(t.RT(), k) != wantK {
					add("C17.queries", "containskeyed", "%s: ContainsKeyed(%s,%s)=%v, reference %v", when, t, k, !wantK, wantK)
				}
			}
		}
		for _, k := range keyPool[:2] {
			_, wantK := m.services[Ident{T: voidRef(), Key: k}]
			if coll.ContainsKeyed(voidRef().RT(), k) != wantK {
				add("C17.queries", "containskeyed/void", "%s: ContainsKeyed(struct{},%s)=%v, reference %v", when, k, !wantK, wantK)
			}
		}
	}

	resolveAll := func(bp *builtProv, when string, first bool) {
		mm := bp.model
		if !first {
			// a scope created now on the earlier provider runs exactly the initializers of ITS snapshot
			invBefore := len(h.invs)
			sc, err := bp.p.CreateScope(nil)
			ran := map[int]int{}
			for _, inv := range h.invs[invBefore:] {
				ran[inv.Reg]++
			}
			if err == nil {
				for _, p := range mm.order {
					r := mm.regs[p.Reg]
					if r == nil || !(r.Form == FVoid || r.Form == FVoidErr) || r.Life != LScoped || p.OutIdx >= 0 {
						continue
					}
					if ran[r.ID] != 1 && !anyTouched(mm) {
						add("C17.snapshot", "initializer", "%s: scope created on the earlier provider: scoped initializer r%d of its snapshot ran %d times", when, r.ID, ran[r.ID])
					}
				}
				sc.Close()
			} else if !anyTouched(mm) && buildModel(mm.config()).V.OK() {
				add("C17.snapshot", "create-scope", "%s: CreateScope on the earlier provider failed after later edits of the collection: %v", when, firstLine(err))
			}
			for reg := range ran {
				if mm.gone(reg) {
					add("C17.removed", "ctor-ran-late", "%s: scope created on the earlier provider ran the constructor of r%d, which its snapshot does not contain", when, reg)
				}
			}
		}
		check := func(id Ident) {
			var v any
			var err error
			if id.Key != "" {
				v, err = bp.p.GetKeyed(id.T.RT(), id.Key)
			} else {
				v, err = bp.p.Get(id.T.RT())
			}
			p, registered := mm.services[id]
			if mm.tainted(id) && !(registered && mm.liveFully(p.Reg)) {
				// an identity of a multi-output constructor was removed: what its sibling outputs
				// become is unspecified. An identity that is (now) held by another, intact
				// registration is not in that zone: the removed output must have no effect on it.
				return
			}
			got := -1
			inst := -1
			if err == nil {
				if in, ok := v.(inster); ok && v != nil {
					got = in.inst().Reg
					inst = in.inst().ID
				}
			}
			_, cls := classify(err)
			switch {
			case registered && err != nil && anyTouched(mm):
				// it may depend on a sibling output of a partially removed multi-output registration: unspecified
			case registered && err != nil:
				add("C17.snapshot", "lost", "%s: %s is registered (r%d) in the provider's snapshot but resolution failed: %v", when, id, p.Reg, firstLine(err))
			case registered && got != p.Reg && !mm.touched[p.Reg]:
				add("C17.queries", "producer", "%s: %s resolved to an instance of r%d, the registry says r%d", when, id, got, p.Reg)
				if mm.regs[p.Reg].Life == LSingleton {
					// "exactly its outputs are what is resolved": the identity belongs to singleton p.Reg
					vs = append(vs, Violation{Prop: "C01", Rule: "C01.outputs", Shape: "history/foreign", Msg: fmt.Sprintf("%s: singleton identity %s is registered by r%d but resolves to an instance made by r%d", when, id, p.Reg, got)})
				}
			case !registered && err == nil:
				add("C17.removed", "resolves", "%s: %s is not registered in the provider's snapshot but resolved (instance of r%d)", when, id, got)
			case !registered && !hasClass(cls, ENotFound):
				add("C17.removed", "class", "%s: %s is not registered but failed with %v instead of not-found", when, id, firstLine(err))
			}
			if !first && !anyTouched(mm) {
				if prev, ok := bp.seen[id]; ok && prev != got {
					add("C17.snapshot", "changed", "%s: %s resolved to r%d before the later edits of the collection and to r%d after", when, id, prev, got)
				}
				if pi, ok := bp.inst[id]; ok && registered && mm.regs[p.Reg].Life != LTransient && pi != inst && pi >= 0 {
					add("C17.snapshot", "instance", "%s: %s (non-transient) resolved to instance #%d before and #%d after later edits", when, id, pi, inst)
				}
			} else if first {
				bp.seen[id] = got
				bp.inst[id] = inst
			}
		}
		for ti := 0; ti < 2*typesUsed+2; ti++ {
			t := TypeRef(ti)
			if ti >= typesUsed && ti < 2*typesUsed {
				t = TypeRef(NT + ti - typesUsed)
			} else if ti >= 2*typesUsed {
				t = ifaceRef(ti - 2*typesUsed)
			}
			check(Ident{T: t})
			for _, k := range keyPool[:2] {
				check(Ident{T: t, Key: k})
			}
			// "a group accumulates members in call order"
			for _, g := range groupPool {
				gk := Ident{T: t, Group: g}
				if mm.tainted(gk) {
					continue
				}
				vals, err := bp.p.GetGroup(t.RT(), g)
				var want, got []string
				for _, p := range mm.groups[gk] {
					want = append(want, fmt.Sprintf("r%d", p.Reg))
				}
				for _, v := range vals {
					if in, ok := v.(inster); ok && v != nil {
						got = append(got, fmt.Sprintf("r%d", in.inst().Reg))
					} else {
						got = append(got, "?")
					}
				}
				if err != nil {
					if len(want) > 0 && !anyTouched(mm) {
						add("C17.queries", "group-resolve", "%s: group %s@%s has members %v but resolving it failed: %v", when, t, g, want, firstLine(err))
					}
					continue
				}
				if strings.Join(got, ",") != strings.Join(want, ",") {
					add("C17.queries", "group-order", "%s: group %s@%s resolves to members %v, registered (in call order) %v", when, t, g, got, want)
				}
			}
		}
	}

	for step, op := range c.Ops {
		when := fmt.Sprintf("step %d %s", step, op)
		switch op.Kind {
		case cAdd, cAddInvalid:
			err := h.addReg(coll, op.Reg)
			accepted := false
			if op.Kind == cAdd && ambiguousReg(op.Reg) && err != nil {
				// refusing a field with a name and a group is a legitimate answer; then it has no effect
				out.Reach["coll.ambiguous-field-refused"]++
				queries(when + " (refused)")
				continue
			}
			if op.Kind == cAdd {
				accepted = m.add(op.Reg)
				if ambiguousReg(op.Reg) {
					out.Reach["coll.ambiguous-field-accepted"]++
				}
			}
			_, cls := classify(err)
			switch {
			case accepted && err != nil:
				add("C17.dup", "rejected-valid/"+formNames[op.Reg.Form], "%s was rejected: %v", when, firstLine(err))
				return vs
			case !accepted && err == nil:
				add("C17.dup", "accepted-invalid/"+formNames[op.Reg.Form], "%s was accepted although it %s", when, map[bool]string{true: "is invalid (" + op.Why + ")", false: "duplicates a registered identity"}[op.Kind == cAddInvalid])
				return vs
			case !accepted && op.Kind == cAdd && !hasClass(cls, EAlready):
				add("C17.dup", "class/"+formNames[op.Reg.Form], "%s: duplicate identity rejected with %v, not recognisable as already-registered", when, firstLine(err))
			}
			if !accepted {
				out.Reach["coll.rejected_add"]++
				before := len(vs)
				queries(when + " (rejected)")
				for i := before; i < len(vs); i++ {
					vs[i].Rule = "C17.atomic"
					vs[i].Shape = "atomic/" + formNames[op.Reg.Form] + "/" + vs[i].Shape
				}
			} else {
				queries(when)
			}
		case cRemove:
			coll.Remove(op.Id.T.RT())
			m.remove(Ident{T: op.Id.T})
			out.Reach["coll.remove"]++
			queries(when)
		case cRemoveKeyed:
			if op.IntKey > 0 {
				coll.RemoveKeyed(op.Id.T.RT(), op.IntKey)
				out.Reach["coll.removekeyed-unregistered-int-key"]++
				queries(when)
				continue
			}
			coll.RemoveKeyed(op.Id.T.RT(), op.Id.Key)
			m.remove(op.Id)
			queries(when)
		case cQueries:
			queries(when)
		case cBuild:
			mod := buildModel(m.config())
			invBefore := len(h.invs)
			p, err := coll.Build()
			out.Reach["coll.build"]++
			// C17.removed: constructors of registrations that are completely gone never run
			for _, inv := range h.invs[invBefore:] {
				if m.gone(inv.Reg) {
					add("C17.removed", "ctor-ran", "%s: constructor of r%d ran although the registration was removed or rejected", when, inv.Reg)
				}
			}
			if anyTouched(m) {
				// what the sibling outputs of a partially removed registration become is unspecified, but they
				// are still registered and their constructor still has its dependencies: a required one that
				// nobody registers (even counting the removed outputs as present) cannot be accepted
				if tm := buildModel(m.config()); tm.V.Missing && !tm.V.Cycle && !tm.V.Conflict && !tm.V.Dup && err == nil {
					vs = append(vs, Violation{Prop: "C08", Rule: "C08.found", Shape: "rebuild/partially-removed", Msg: fmt.Sprintf("%s: a required dependency of a still registered constructor is not registered but Build succeeded", when)})
				}
			}
			if anyTouched(m) && err == nil || anyTouched(m) && !hasClassErr(err, ECircular) {
				// ... and a dependency cycle that runs only through identities that are still registered
				// (the removed outputs taken out of their constructors' result lists) must be reported
				if rc := m.reducedConfig(); rc != nil {
					if rm := buildModel(rc); rm.V.Cycle && !rm.V.Dup && !rm.V.Conflict && !rm.V.Missing {
						vs = append(vs, Violation{Prop: "C05", Rule: "C05.build", Shape: "rebuild/partially-removed", Msg: fmt.Sprintf("%s: the identities that are still registered form a dependency cycle (registrations %v) but Build returned %v", when, keys(rm.V.CycleRegs), firstLine(err))})
					}
				}
			}
			if !anyTouched(m) {
				// the verdict of every Build of the history is judged against the registry as it is now
				_, bcls := classify(err)
				single := b2i(mod.V.Cycle)+b2i(mod.V.Conflict)+b2i(mod.V.Missing) == 1
				switch {
				case mod.V.Cycle && !hasClass(bcls, ECircular) && single:
					vs = append(vs, Violation{Prop: "C05", Rule: "C05.build", Shape: "rebuild", Msg: fmt.Sprintf("%s: the current registry has a dependency cycle but Build returned %v", when, firstLine(err))})
				case mod.V.Conflict && !hasClass(bcls, ELifetime) && single:
					vs = append(vs, Violation{Prop: "C07", Rule: "C07.verdict", Shape: "rebuild", Msg: fmt.Sprintf("%s: in the current registry a singleton/transient depends on a scoped registration but Build returned %v", when, firstLine(err))})
				case mod.V.Missing && err == nil && single:
					vs = append(vs, Violation{Prop: "C08", Rule: "C08.found", Shape: "rebuild", Msg: fmt.Sprintf("%s: a required dependency is not registered (any more) but Build succeeded; resolving the dependent fails with not-found", when)})
				case mod.V.OK() && err != nil:
					vs = append(vs, Violation{Prop: "C08", Rule: "C08.accept", Shape: "rebuild", Msg: fmt.Sprintf("%s: the current registry is valid but Build returned %v", when, firstLine(err))})
					if hasClass(bcls, ECircular) {
						vs = append(vs, Violation{Prop: "C05", Rule: "C05.build", Shape: "rebuild/false-cycle", Msg: fmt.Sprintf("%s: the current registry is acyclic but Build reported a cycle: %v", when, firstLine(err))})
					}
					if hasClass(bcls, ELifetime) {
						vs = append(vs, Violation{Prop: "C07", Rule: "C07.verdict", Shape: "rebuild/false-conflict", Msg: fmt.Sprintf("%s: no captive dependency in the current registry but Build reported a lifetime conflict: %v", when, firstLine(err))})
					}
				}
			}
			if err != nil {
				if mod.V.OK() && !anyTouched(m) {
					add("C17.queries", "build-rejects", "%s failed although the reference registry is valid: %v", when, firstLine(err))
				}
				continue
			}
			if !mod.V.OK() && !anyTouched(m) {
				// Build verdict is C05/C07/C08 territory; only counted here
				out.Reach["coll.build-accepted-invalid"]++
			}
			// every live singleton ran exactly once in this Build
			ran := map[int]int{}
			for _, inv := range h.invs[invBefore:] {
				ran[inv.Reg]++
			}
			for _, r := range m.config().Regs {
				taint := false
				for _, p := range regIdents(r) {
					if m.tainted(p.Id) {
						taint = true
					}
				}
				if taint {
					continue
				}
				if r.Life == LSingleton && r.Form != FInstance && m.liveFully(r.ID) && ran[r.ID] != 1 {
					add("C17.queries", "singleton-count", "%s: ToSlice lists singleton r%d but its constructor ran %d times at Build", when, r.ID, ran[r.ID])
				}
			}
			bp := &builtProv{p: p, model: cloneCollModel(m), seen: map[Ident]int{}, inst: map[Ident]int{}}
			provs = append(provs, bp)
			resolveAll(bp, when+" -> resolve", true)
		case cResolveAll:
			if len(provs) == 0 {
				continue
			}
			bp := provs[len(provs)-1]
			invBefore := len(h.invs)
			resolveAll(bp, when, false)
			for _, inv := range h.invs[invBefore:] {
				if bp.model.gone(inv.Reg) {
					add("C17.removed", "ctor-ran-late", "%s: constructor of r%d ran on a provider whose snapshot does not contain it", when, inv.Reg)
				}
			}
			out.Reach["coll.resolve_after_edit"]++
		}
		if stopOn(vs) {
			return vs
		}
	}
	if len(vs) > 0 {
		return vs
	}
	for _, bp := range provs {
		bp.p.Close()
	}
	// every provider of the history is closed now: whatever the container had constructors create
	// for them (also outputs whose identity had been removed from the collection before the Build)
	// has been closed exactly once
	for _, in := range h.insts {
		if in == nil || in.Inv < 0 {
			continue
		}
		r := m.regs[in.Reg]
		if r == nil {
			for _, x := range cfg.Regs {
				if x.ID == in.Reg {
					r = x
				}
			}
		}
		if r == nil || in.OutIdx >= len(r.Outs) || !r.Outs[in.OutIdx].Concrete.IsDisp() {
			continue
		}
		switch {
		case in.closeCount == 0:
			vs = append(vs, Violation{Prop: "C10", Rule: "C10.once", Shape: "history/" + formNames[r.Form] + "/" + lifeNames[r.Life] + "/leak", Msg: fmt.Sprintf("instance #%d (r%d output %d, %s) was created by a constructor the container ran and is still open after every provider of the history has been closed", in.ID, in.Reg, in.OutIdx, r)})
		case in.closeCount > 1:
			vs = append(vs, Violation{Prop: "C10", Rule: "C10.once", Shape: "history/" + formNames[r.Form] + "/" + lifeNames[r.Life] + "/twice", Msg: fmt.Sprintf("instance #%d (r%d output %d, %s) was closed %d times", in.ID, in.Reg, in.OutIdx, r, in.closeCount)})
		}
	}
	return vs
}

func anyTouched(m *collModel) bool { return len(m.touched) > 0 }

func sameDescSet(a, b map[descKey]int) bool {
	if len(a) != len(b) {
		return false
	}
	for k, v := range a {
		if b[k] != v {
			return false
		}
	}
	return true
}

func fmtDesc(m map[descKey]int) string {
	var s []string
	for k, n := range m {
		x := k.T
		if k.Key != "" {
			x += "#" + k.Key
		}
		if k.Group != "" {
			x += "@" + k.Group
		}
		x += "/" + lifeNames[k.Life]
		if n > 1 {
			x += fmt.Sprintf("x%d", n)
		}
		s = append(s, x)
	}
	sort.Strings(s)
	return "[" + strings.Join(s, " ") + "]"
}

func (e *collEngine) runTapes(tier string, idx int, tapes [nStreams][]int32) (*RunOut, *collCase) {
	tape := ReplayTape(tapes)
	c := decodeCollCase(tier, idx, tape)
	return e.exec(c, tape), c
}

func (e *collEngine) Replay(rf *ReplayFile) *RunOut {
	collOwnProp = rf.Property
	out, _ := e.runTapes(rf.Tier, rf.Run, mapToTapes(rf.Tapes))
	return out
}

func (e *collEngine) Minimise(prop, tier string, idx int, tapes [nStreams][]int32, v Violation) *ReplayFile {
	return genericMinimise(e.Name(), prop, tapes, v, func(t [nStreams][]int32) (*RunOut, map[string]any) {
		out, c := e.runTapes(tier, idx, t)
		return out, c.Describe()
	})
}

// genericMinimise: tape-level delta debugging for the single-task engines.
func genericMinimise(engine, prop string, tapes [nStreams][]int32, v Violation, run func([nStreams][]int32) (*RunOut, map[string]any)) *ReplayFile {
	deadline := time.Now().Add(25 * time.Second)
	try := func(t [nStreams][]int32) (ok bool) {
		defer func() {
			if r := recover(); r != nil {
				ok = false
			}
		}()
		out, _ := run(t)
		return hasViolation(out, v) != nil
	}
	cur := tapes
	minimised := false
	if try(cur) {
		cur = shrinkTapes(cur, try, deadline)
		minimised = true
	}
	out, desc := run(cur)
	vv := hasViolation(out, v)
	if vv == nil {
		cur = tapes
		out, desc = run(cur)
		vv = hasViolation(out, v)
		if vv == nil {
			vv = &v
		}
	}
	return &ReplayFile{Property: prop, Rule: vv.Rule, Shape: vv.Shape, Message: vv.Msg, Engine: engine,
		Tapes: tapesToMap(cur), Case: desc, All: out.Violations, Minimised: minimised}
}

var _ = errors.New
