package main

import (
	"encoding/json"
	"flag"
	"fmt"
	"hash/fnv"
	"os"
	"os/exec"
	"path/filepath"
	"sort"
	"strings"
	"sync/atomic"
	"time"

	"github.com/junioryono/godi/v4/simrt"
)

// ---------------------------------------------------------------------------
// CLI:
//   harness check  -prop C02 -tier quick [-seed N] [-workers 16]   parent: spawns workers, writes evidence
//   harness worker -prop C02 -tier quick -seed N -from A -to B      one seed range, prints JSON stats
//   harness replay <file>                                         re-executes a replay file
//
// Exit codes: 0 held, 1 violation (VIOLATION line printed), 2 trouble.

var verifDir = "/verif"
var outDir = "/verif"

type ReplayFile struct {
	Property  string             `json:"property"`
	Rule      string             `json:"rule"`
	Shape     string             `json:"shape"`
	Message   string             `json:"message"`
	Seed      uint64             `json:"seed"`
	Run       int                `json:"run"`
	SubSeed   uint64             `json:"sub_seed"`
	Tier      string             `json:"tier"`
	Engine    string             `json:"engine"`
	Tapes     map[string][]int32 `json:"tapes"`
	Case      map[string]any     `json:"case"`
	Trace     []string           `json:"schedule_trace"`
	Digest    string             `json:"event_digest"`
	All       []Violation        `json:"all_violations"`
	Minimised bool               `json:"minimised"`
	Extra     map[string]any     `json:"extra,omitempty"`
	Override  *FaultOverride     `json:"fault_override,omitempty"`
	More      []FaultOverride    `json:"fault_override_more,omitempty"`
}

type Stats struct {
	Prop        string           `json:"prop"`
	Runs        int              `json:"runs"`
	Steps       int64            `json:"steps"`
	Switches    int64            `json:"switches"`
	SchedHashes []uint64         `json:"sched_hashes"`
	CfgHashes   []uint64         `json:"cfg_hashes"`
	SwitchPairs int              `json:"switch_pairs_max"`
	Faults      map[string]int   `json:"faults_fired"`
	Reach       map[string]int   `json:"reach"`
	Samples     []map[string]any `json:"samples"`
	Violations  []ReplayRef      `json:"violations"`
	Known       map[string]int   `json:"known"`
	Classes     map[string]int   `json:"verdict_classes"`
	Trouble     string           `json:"trouble,omitempty"`
	WallS       float64          `json:"wall_s"`
	Exhaustive  bool             `json:"exhaustive"`
	Extra       map[string]int   `json:"extra,omitempty"`
}

type ReplayRef struct {
	Prop  string `json:"prop"`
	Rule  string `json:"rule"`
	Shape string `json:"shape"`
	Msg   string `json:"msg"`
	Path  string `json:"path"`
}

func newStats(prop string) *Stats {
	return &Stats{Prop: prop, Faults: map[string]int{}, Reach: map[string]int{}, Known: map[string]int{}, Classes: map[string]int{}, Extra: map[string]int{}}
}

func hashStr(s string) uint64 {
	f := fnv.New64a()
	f.Write([]byte(s))
	return f.Sum64()
}

func main() {
	if len(os.Args) < 2 {
		fmt.Fprintln(os.Stderr, "usage: harness check|worker|replay ...")
		os.Exit(2)
	}
	if d := os.Getenv("VERIF_DIR"); d != "" {
		verifDir = d
	}
	outDir = verifDir
	if d := os.Getenv("VERIF_OUT_DIR"); d != "" {
		outDir = d // evidence and replay files go here (used when judging scratch trees)
	}
	defer func() {
		if r := recover(); r != nil {
			if te, ok := r.(troubleErr); ok {
				fmt.Println(te.Error())
				os.Exit(2)
			}
			panic(r)
		}
	}()
	switch os.Args[1] {
	case "check":
		os.Exit(cmdCheck(os.Args[2:]))
	case "worker":
		os.Exit(cmdWorker(os.Args[2:]))
	case "replay":
		os.Exit(cmdReplay(os.Args[2:]))
	case "digest":
		os.Exit(cmdDigest(os.Args[2:]))
	case "selftest":
		os.Exit(cmdSelftest(os.Args[2:]))
	default:
		fmt.Fprintln(os.Stderr, "unknown command")
		os.Exit(2)
	}
}

// ---------------------------------------------------------------------------
// Known findings.

type knownFinding struct {
	Prop, Rule, Shape, Text string
}

func loadKnown() []knownFinding {
	b, err := os.ReadFile(filepath.Join(verifDir, "known-findings.txt"))
	if err != nil {
		return nil
	}
	var out []knownFinding
	for _, line := range strings.Split(string(b), "\n") {
		line = strings.TrimSpace(line)
		if !strings.HasPrefix(line, "finding:") {
			continue
		}
		rest := strings.TrimSpace(strings.TrimPrefix(line, "finding:"))
		parts := strings.SplitN(rest, "::", 2)
		kf := knownFinding{}
		for _, f := range strings.Fields(parts[0]) {
			kv := strings.SplitN(f, "=", 2)
			if len(kv) != 2 {
				continue
			}
			switch kv[0] {
			case "property":
				kf.Prop = kv[1]
			case "rule":
				kf.Rule = kv[1]
			case "shape":
				kf.Shape = kv[1]
			}
		}
		if len(parts) == 2 {
			kf.Text = strings.TrimSpace(parts[1])
		}
		out = append(out, kf)
	}
	return out
}

func matchKnown(kfs []knownFinding, v Violation) *knownFinding {
	for i := range kfs {
		k := &kfs[i]
		if k.Prop == v.Prop && k.Rule == v.Rule && k.Shape == v.Shape {
			return k
		}
	}
	return nil
}

// ---------------------------------------------------------------------------
// Worker.

func cmdWorker(args []string) int {
	fs := flag.NewFlagSet("worker", flag.ExitOnError)
	prop := fs.String("prop", "", "property id")
	tier := fs.String("tier", "quick", "tier")
	seed := fs.Uint64("seed", 1, "VERIF_SEED")
	from := fs.Int("from", 0, "first run index")
	to := fs.Int("to", 1, "one past last run index")
	budget := fs.Float64("budget", 0, "wall seconds budget (0 = none)")
	fs.Parse(args)
	st := newStats(*prop)
	start := time.Now()
	eng := engineFor(*prop)
	if eng == nil {
		fmt.Println("INCONCLUSIVE-HARNESS: no engine for " + *prop)
		return 2
	}
	kfs := loadKnown()
	// real-time watchdog: a case takes milliseconds; no completed case for two
	// minutes means the simulator itself is stuck - harness trouble, never a violation
	var progress atomic.Int64
	go func() {
		last, stale := int64(-1), 0
		for {
			time.Sleep(5 * time.Second)
			if p := progress.Load(); p == last {
				stale++
				if stale >= 24 {
					fmt.Printf("HARNESS-WATCHDOG: no progress for 120s in run %d of %s (seed %d)\n", p, *prop, *seed)
					os.Exit(2)
				}
			} else {
				last, stale = p, 0
			}
		}
	}()
	sched := map[uint64]bool{}
	cfgs := map[uint64]bool{}
	for i := *from; i < *to; i++ {
		if *budget > 0 && time.Since(start).Seconds() > *budget {
			break
		}
		sub := mix(mix(*seed, hashStr(*prop)), uint64(i))
		tape := NewTape(sub)
		progress.Store(int64(i))
		out := eng.Run(*prop, *tier, i, tape)
		st.Runs++
		st.Steps += int64(out.Steps)
		st.Switches += int64(out.Switches)
		if out.Pairs > st.SwitchPairs {
			st.SwitchPairs = out.Pairs
		}
		sched[out.SchedHash] = true
		if out.NonTrivial {
			cfgs[out.CaseHash] = true
		}
		for k, v := range out.Faults {
			st.Faults[k] += v
		}
		for k, v := range out.Reach {
			st.Reach[k] += v
		}
		if out.Class != "" {
			st.Classes[out.Class]++
		}
		if len(st.Samples) < 3 && out.NonTrivial {
			st.Samples = append(st.Samples, out.Describe)
		}
		var mine []Violation
		for _, v := range out.Violations {
			if v.Prop == *prop {
				mine = append(mine, v)
			}
		}
		if len(mine) == 0 {
			continue
		}
		// first violation not covered by a known finding is reported; known ones are counted
		var unknown *Violation
		for j := range mine {
			if k := matchKnown(kfs, mine[j]); k != nil {
				st.Known[fmt.Sprintf("property=%s rule=%s shape=%s :: %s", k.Prop, k.Rule, k.Shape, k.Text)]++
			} else if unknown == nil {
				unknown = &mine[j]
			}
		}
		if unknown == nil {
			continue
		}
		if ce, ok := eng.(*containerEngine); ok {
			ce.override, ce.more = out.override, out.more
		}
		if me, ok := eng.(*multiEngine); ok {
			if ce, ok := me.parts[i%len(me.parts)].(*containerEngine); ok {
				ce.override, ce.more = out.override, out.more
			}
		}
		rf := eng.Minimise(*prop, *tier, i, tape.Snapshot(), *unknown)
		rf.Seed, rf.Run, rf.SubSeed, rf.Tier = *seed, i, sub, *tier
		path := filepath.Join(outDir, "replays", fmt.Sprintf("%s-%d-%d.json", *prop, *seed, i))
		os.MkdirAll(filepath.Dir(path), 0o755)
		b, _ := json.MarshalIndent(rf, "", " ")
		os.WriteFile(path, b, 0o644)
		// replay the file once more, in a fresh process, before reporting
		reproduced := subprocessReplay(path)
		if !reproduced && rf.Rule == "C09.race" {
			// race reports depend on the detector's shadow state: retry, then fall back
			// to the unminimised tapes (which produced the report in this process)
			for k := 0; k < 2 && !reproduced; k++ {
				reproduced = subprocessReplay(path)
			}
			if !reproduced {
				orig := *rf
				orig.Tapes = tapesToMap(tape.Snapshot())
				orig.Minimised = false
				b, _ := json.MarshalIndent(&orig, "", " ")
				os.WriteFile(path, b, 0o644)
				for k := 0; k < 3 && !reproduced; k++ {
					reproduced = subprocessReplay(path)
				}
			}
		}
		if !reproduced {
			st.Trouble = fmt.Sprintf("replay of %s did not reproduce %s/%s", path, rf.Rule, rf.Shape)
			break
		}
		st.Violations = append(st.Violations, ReplayRef{Prop: rf.Property, Rule: rf.Rule, Shape: rf.Shape, Msg: rf.Message, Path: path})
		break
	}
	for k := range sched {
		st.SchedHashes = append(st.SchedHashes, k)
	}
	for k := range cfgs {
		st.CfgHashes = append(st.CfgHashes, k)
	}
	st.WallS = time.Since(start).Seconds()
	b, _ := json.Marshal(st)
	fmt.Println("STATS " + string(b))
	if st.Trouble != "" {
		return 2
	}
	if len(st.Violations) > 0 {
		return 1
	}
	return 0
}

// RunOut is what an engine reports for one case.
type faultPos struct {
	reg, n int
	close  bool
}

type RunOut struct {
	positions  []faultPos
	override   *FaultOverride
	more       []FaultOverride
	Violations []Violation
	Steps      int
	Switches   int
	Pairs      int
	SchedHash  uint64
	CaseHash   uint64
	NonTrivial bool
	Faults     map[string]int
	Reach      map[string]int
	Describe   map[string]any
	Class      string
	Trace      []string
	Digest     string
}

type Engine interface {
	Name() string
	Run(prop, tier string, idx int, tape *Tape) *RunOut
	Minimise(prop, tier string, idx int, tapes [nStreams][]int32, v Violation) *ReplayFile
	Replay(rf *ReplayFile) *RunOut
}

// multiEngine interleaves several engines over the run index space.
type multiEngine struct{ parts []Engine }

func (m *multiEngine) Name() string {
	var n []string
	for _, p := range m.parts {
		n = append(n, p.Name())
	}
	return strings.Join(n, "+")
}
func (m *multiEngine) Run(prop, tier string, idx int, tape *Tape) *RunOut {
	return m.parts[idx%len(m.parts)].Run(prop, tier, idx/len(m.parts), tape)
}
func (m *multiEngine) Minimise(prop, tier string, idx int, tapes [nStreams][]int32, v Violation) *ReplayFile {
	return m.parts[idx%len(m.parts)].Minimise(prop, tier, idx/len(m.parts), tapes, v)
}
func (m *multiEngine) Replay(rf *ReplayFile) *RunOut {
	sub := *rf
	sub.Run = rf.Run / len(m.parts)
	return m.parts[rf.Run%len(m.parts)].Replay(&sub)
}

func engineFor(prop string) Engine {
	switch prop {
	case "C01":
		// registration histories (Remove / re-Add of single outputs before Build) next to the container runs
		return &multiEngine{parts: []Engine{&containerEngine{}, &containerEngine{}, &containerEngine{}, &collEngine{}}}
	case "C10":
		return &multiEngine{parts: []Engine{&containerEngine{}, &containerEngine{}, &containerEngine{}, &collEngine{}}}
	case "C02", "C03", "C04", "C09", "C11", "C12", "C13":
		return &containerEngine{}
	case "C07", "C08":
		return &multiEngine{parts: []Engine{&containerEngine{}, &containerEngine{}, &collEngine{}}}
	case "C15", "C18":
		return &multiEngine{parts: []Engine{&containerEngine{}, &containerEngine{}, &containerEngine{}, &inputsEngine{}}}
	case "C14":
		return &multiEngine{parts: []Engine{&containerEngine{}, &leakEngine{}}}
	case "C05":
		return &multiEngine{parts: []Engine{&containerEngine{}, &graphEngine{}, &collEngine{}}}
	case "C19":
		return &graphEngine{}
	case "C17":
		return &collEngine{}
	case "C20":
		return &modEngine{}
	case "C16":
		return &webEngine{}
	case "C06":
		return &multiEngine{parts: []Engine{&permEngine{}, &graphEngine{}}}
	}
	return nil
}

// ---------------------------------------------------------------------------
// Replay.

func replayFile(path string) *Violation {
	b, err := os.ReadFile(path)
	if err != nil {
		return nil
	}
	var rf ReplayFile
	if err := json.Unmarshal(b, &rf); err != nil {
		return nil
	}
	eng := engineFor(rf.Property)
	if eng == nil {
		return nil
	}
	out := eng.Replay(&rf)
	for _, v := range out.Violations {
		if v.Prop == rf.Property && v.Rule == rf.Rule && v.Shape == rf.Shape {
			vv := v
			return &vv
		}
	}
	return nil
}

func cmdReplay(args []string) int {
	if len(args) < 1 {
		fmt.Fprintln(os.Stderr, "usage: harness replay <file>")
		return 2
	}
	b, err := os.ReadFile(args[0])
	if err != nil {
		fmt.Println("cannot read replay file:", err)
		return 2
	}
	var rf ReplayFile
	if err := json.Unmarshal(b, &rf); err != nil {
		fmt.Println("bad replay file:", err)
		return 2
	}
	eng := engineFor(rf.Property)
	if eng == nil {
		return 2
	}
	out := eng.Replay(&rf)
	fmt.Printf("replay %s: property=%s rule=%s shape=%s\n", args[0], rf.Property, rf.Rule, rf.Shape)
	if d, _ := json.MarshalIndent(out.Describe, "", " "); d != nil {
		fmt.Println(string(d))
	}
	for _, t := range out.Trace {
		fmt.Println("  sched:", t)
	}
	fmt.Println("event digest:", out.Digest, "(recorded:", rf.Digest+")")
	rc := 0
	for _, v := range out.Violations {
		if v.Prop == rf.Property {
			fmt.Println("  ", v.String())
		}
		if v.Prop == rf.Property && v.Rule == rf.Rule && v.Shape == rf.Shape {
			rc = 1
		}
	}
	if rc == 1 {
		fmt.Printf("VIOLATION property=%s replay=%s\n", rf.Property, args[0])
	} else {
		fmt.Println("replay did not reproduce the recorded violation")
	}
	return rc
}

// ---------------------------------------------------------------------------
// Parent.

func tierRuns(prop, tier string) (runs int, budget float64) {
	if tier == "thorough" {
		return 4000000, 1200
	}
	return 48000, 75
}

func cmdCheck(args []string) int {
	fs := flag.NewFlagSet("check", flag.ExitOnError)
	prop := fs.String("prop", "", "property id")
	tier := fs.String("tier", "quick", "tier")
	seed := fs.Uint64("seed", 1, "VERIF_SEED")
	workers := fs.Int("workers", 16, "worker processes")
	runsFlag := fs.Int("runs", 0, "total runs (0 = tier default)")
	budgetFlag := fs.Float64("budget", 0, "wall budget seconds per worker (0 = tier default)")
	raceBin := fs.String("race-bin", "", "race-detector build of the harness (used for a share of the workers)")
	fs.Parse(args)
	start := time.Now()
	runs, budget := tierRuns(*prop, *tier)
	if *runsFlag > 0 {
		runs = *runsFlag
	}
	if *budgetFlag > 0 {
		budget = *budgetFlag
	}
	self, _ := os.Executable()
	per := (runs + *workers - 1) / *workers
	type wres struct {
		st  *Stats
		rc  int
		out string
	}
	ch := make(chan wres, *workers)
	for w := 0; w < *workers; w++ {
		from, to := w*per, (w+1)*per
		bin := self
		env := os.Environ()
		if *raceBin != "" && useRace(*prop) && w%2 == 1 {
			bin = *raceBin
			env = append(env, "GORACE=halt_on_error=0 exitcode=0 log_path="+os.Getenv("VERIF_RACE_LOG"), "VERIF_RACE_WORKER=1")
		}
		go func() {
			cmd := exec.Command(bin, "worker", "-prop", *prop, "-tier", *tier, "-seed", fmt.Sprint(*seed),
				"-from", fmt.Sprint(from), "-to", fmt.Sprint(to), "-budget", fmt.Sprint(budget))
			cmd.Env = append(env, "GOMAXPROCS=2")
			out, err := cmd.CombinedOutput()
			r := wres{out: string(out)}
			if err != nil {
				if ee, ok := err.(*exec.ExitError); ok {
					r.rc = ee.ExitCode()
				} else {
					r.rc = 2
				}
			}
			for _, line := range strings.Split(string(out), "\n") {
				if strings.HasPrefix(line, "STATS ") {
					st := &Stats{}
					if json.Unmarshal([]byte(line[6:]), st) == nil {
						r.st = st
					}
				}
			}
			ch <- r
		}()
	}
	tot := newStats(*prop)
	sched := map[uint64]bool{}
	cfgs := map[uint64]bool{}
	rc := 0
	var troubles []string
	for w := 0; w < *workers; w++ {
		r := <-ch
		if r.st == nil {
			troubles = append(troubles, fmt.Sprintf("worker died (rc=%d): %s", r.rc, tail(r.out, 2000)))
			continue
		}
		if r.rc == 2 || r.st.Trouble != "" {
			troubles = append(troubles, r.st.Trouble+" "+tail(r.out, 1500))
		}
		st := r.st
		tot.Runs += st.Runs
		tot.Steps += st.Steps
		tot.Switches += st.Switches
		if st.SwitchPairs > tot.SwitchPairs {
			tot.SwitchPairs = st.SwitchPairs
		}
		for _, k := range st.SchedHashes {
			sched[k] = true
		}
		for _, k := range st.CfgHashes {
			cfgs[k] = true
		}
		for k, v := range st.Faults {
			tot.Faults[k] += v
		}
		for k, v := range st.Reach {
			tot.Reach[k] += v
		}
		for k, v := range st.Known {
			tot.Known[k] += v
		}
		for k, v := range st.Classes {
			tot.Classes[k] += v
		}
		for k, v := range st.Extra {
			tot.Extra[k] += v
		}
		if len(tot.Samples) < 3 {
			tot.Samples = append(tot.Samples, st.Samples...)
		}
		tot.Violations = append(tot.Violations, st.Violations...)
	}
	wall := time.Since(start).Seconds()
	if len(troubles) > 0 {
		for _, t := range troubles {
			fmt.Println("HARNESS-TROUBLE:", t)
		}
		return 2
	}
	var known []string
	for k := range tot.Known {
		known = append(known, k)
	}
	sort.Strings(known)
	for _, k := range known {
		fmt.Printf("KNOWN-FINDING: %s (hit %d times)\n", k, tot.Known[k])
	}
	for _, v := range tot.Violations {
		fmt.Printf("VIOLATION property=%s replay=%s\n", v.Prop, v.Path)
		fmt.Printf("  rule=%s shape=%s: %s\n", v.Rule, v.Shape, v.Msg)
		rc = 1
	}
	writeEvidence(*prop, *tier, *seed, tot, len(sched), len(cfgs), wall)
	fmt.Printf("%s %s: runs=%d steps=%d distinct_schedules=%d distinct_cases=%d violations=%d known=%d wall=%.1fs\n",
		*prop, *tier, tot.Runs, tot.Steps, len(sched), len(cfgs), len(tot.Violations), len(known), wall)
	return rc
}

func useRace(prop string) bool {
	switch prop {
	case "C09", "C13", "C02", "C10", "C12":
		return true
	}
	return false
}

func tail(s string, n int) string {
	if len(s) > n {
		return s[len(s)-n:]
	}
	return s
}

var _ = simrt.RaceBuild

// ---------------------------------------------------------------------------
// Determinism self-test.

func cmdDigest(args []string) int {
	fs := flag.NewFlagSet("digest", flag.ExitOnError)
	prop := fs.String("prop", "", "property id")
	tier := fs.String("tier", "quick", "tier")
	seed := fs.Uint64("seed", 1, "seed")
	from := fs.Int("from", 0, "")
	to := fs.Int("to", 1, "")
	fs.Parse(args)
	eng := engineFor(*prop)
	if eng == nil {
		return 2
	}
	for i := *from; i < *to; i++ {
		sub := mix(mix(*seed, hashStr(*prop)), uint64(i))
		out := eng.Run(*prop, *tier, i, NewTape(sub))
		var rules []string
		for _, v := range out.Violations {
			if v.Rule == "C09.race" {
				rules = append(rules, v.Rule+"/"+v.Shape)
			} else {
				rules = append(rules, v.Rule)
			}
		}
		sort.Strings(rules)
		fmt.Printf("%s %d sched=%016x steps=%d digest=%s rules=%s\n", *prop, i, out.SchedHash, out.Steps, out.Digest, strings.Join(rules, ","))
	}
	return 0
}

// cmdSelftest: the same sub-seeds must produce identical event digests,
// schedules and verdicts across processes, GOMAXPROCS values and the plain /
// race-detector builds.
func cmdSelftest(args []string) int {
	fs := flag.NewFlagSet("selftest", flag.ExitOnError)
	raceBin := fs.String("race-bin", "", "race build")
	n := fs.Int("n", 40, "sub-seeds per property")
	long := fs.Bool("long", false, "long form: more properties, more processes")
	fs.Parse(args)
	self, _ := os.Executable()
	props := []string{"C02", "C09", "C13", "C19"}
	if *long {
		props = allEngineProps()
	}
	type cfg struct {
		bin  string
		gmp  string
		race bool
	}
	cfgs := []cfg{{self, "1", false}, {self, "4", false}, {self, "16", false}}
	if *raceBin != "" {
		cfgs = append(cfgs, cfg{*raceBin, "4", true}, cfg{*raceBin, "16", true})
	}
	if *long {
		cfgs = append(cfgs, cfgs...)
	}
	bad := 0
	for _, p := range props {
		outs := make([]string, len(cfgs))
		done := make(chan int, len(cfgs))
		for i, c := range cfgs {
			i, c := i, c
			go func() {
				cmd := exec.Command(c.bin, "digest", "-prop", p, "-seed", "7", "-from", "0", "-to", fmt.Sprint(*n))
				cmd.Env = append(os.Environ(), "GOMAXPROCS="+c.gmp, "GORACE=halt_on_error=0 exitcode=0 log_path="+os.DevNull)
				b, err := cmd.Output()
				if err != nil {
					outs[i] = "ERROR " + err.Error()
				} else {
					outs[i] = string(b)
				}
				done <- i
			}()
		}
		for range cfgs {
			<-done
		}
		for i := 1; i < len(outs); i++ {
			a, b := outs[0], outs[i]
			if cfgs[i].race != cfgs[0].race {
				// race workers add C09.race verdicts; compare everything but the rules column
				a, b = stripRules(a), stripRules(b)
			}
			if a != b || strings.HasPrefix(outs[i], "ERROR") || outs[0] == "" {
				bad++
				fmt.Printf("SELFTEST-NONDETERMINISM property=%s config %d (GOMAXPROCS=%s race=%v) differs from config 0\n", p, i, cfgs[i].gmp, cfgs[i].race)
				al, bl := strings.Split(a, "\n"), strings.Split(b, "\n")
				for k := 0; k < len(al) && k < len(bl); k++ {
					if al[k] != bl[k] {
						fmt.Println("  <", al[k])
						fmt.Println("  >", bl[k])
						break
					}
				}
			}
		}
	}
	if bad > 0 {
		fmt.Println("selftest: determinism FAILED")
		return 2
	}
	fmt.Printf("selftest: determinism ok (%d properties x %d sub-seeds x %d process configurations)\n", len(props), *n, len(cfgs))
	return 0
}

func stripRules(s string) string {
	var out []string
	for _, l := range strings.Split(s, "\n") {
		if i := strings.Index(l, " rules="); i >= 0 {
			l = l[:i]
		}
		out = append(out, l)
	}
	return strings.Join(out, "\n")
}

func allEngineProps() []string {
	var out []string
	for i := 1; i <= 20; i++ {
		p := fmt.Sprintf("C%02d", i)
		if engineFor(p) != nil {
			out = append(out, p)
		}
	}
	return out
}
