package main

import (
	"fmt"
	"sort"
	"strings"
)

// ---------------------------------------------------------------------------
// Post-run analysis of the ledger. Everything here runs after sim.Run()
// returned (all tasks joined race-visibly).

// Owner of container-created instances.
type Owner struct {
	Kind int // 0 provider (singletons), 1 root scope, 2 scope handle, 3 failed CreateScope (op gid), 4 failed Build
	ID   int
}

const (
	OwProvider = iota
	OwRoot
	OwScope
	OwFailedCreate
	OwFailedBuild
	OwUnknown
)

func (o Owner) String() string {
	switch o.Kind {
	case OwProvider:
		return "provider"
	case OwRoot:
		return "root-scope"
	case OwScope:
		return fmt.Sprintf("scope h%d", o.ID)
	case OwFailedCreate:
		return fmt.Sprintf("failed CreateScope op%d", o.ID)
	case OwFailedBuild:
		return "failed Build"
	}
	return "unknown"
}

type Delivery struct {
	Site  string // "resolve", "arg", "group-elem", "group-arg"
	Op    int    // op gid in whose extent
	Inv   int    // receiving invocation (-1 for resolve results)
	Prov  Provision
	Inst  int
	Scope Owner // scope in which the request was made
	Seq   int
}

type Analysis struct {
	h              *H
	m              *Model
	ops            []*OpResult
	buildOp        *OpResult
	buildOK        bool
	finOp          *OpResult
	deliveries     []Delivery
	faultInOp      map[int]bool // op gid -> a constructor fault fired in its extent
	buildCancelled bool         // the build context was cancelled inside a constructor
	vs             []Violation
}

func (a *Analysis) add(prop, rule, shape, format string, args ...any) {
	a.vs = append(a.vs, Violation{Prop: prop, Rule: rule, Shape: shape, Msg: fmt.Sprintf(format, args...)})
}

func regShape(r *Reg) string {
	s := formNames[r.Form] + "/" + lifeNames[r.Life]
	if len(r.As) > 0 {
		s += fmt.Sprintf("/as%d", len(r.As))
	}
	if r.Name != "" {
		s += "/name"
	}
	if r.Group != "" {
		s += "/group"
	}
	for _, o := range r.Outs {
		if o.Group != "" {
			s += "/outgroup"
			break
		}
	}
	return s
}

// scopeOfOp: the scope in which requests made during op are served.
func (a *Analysis) scopeOfOp(op *OpResult) Owner {
	switch op.Op.Kind {
	case OpBuild:
		if a.buildOK {
			return Owner{OwRoot, 0}
		}
		return Owner{OwFailedBuild, 0}
	case OpCreateScope:
		if op.NewH >= 0 {
			return Owner{OwScope, op.NewH}
		}
		if op.Class == EScopeDisposed || op.Class == EProviderDisposed {
			return Owner{OwFailedCreate, op.GID}
		}
		return Owner{OwFailedCreate, op.GID}
	case OpFinish:
		return Owner{OwRoot, 0}
	}
	if op.Handle == 0 {
		return Owner{OwRoot, 0}
	}
	if op.Handle > 0 {
		return Owner{OwScope, op.Handle}
	}
	return Owner{OwUnknown, 0}
}

func (a *Analysis) scopeOfInv(inv *Invocation) Owner {
	if inv.Op < 0 || inv.Op >= len(a.ops) {
		return Owner{OwUnknown, 0}
	}
	return a.scopeOfOp(a.ops[inv.Op])
}

// ownerOf: who must close inst.
func (a *Analysis) ownerOf(in *Inst) Owner {
	if in.Inv < 0 {
		return Owner{OwUnknown, 0}
	}
	r := a.m.regs[in.Reg]
	inv := a.h.invs[in.Inv]
	sc := a.scopeOfInv(inv)
	if r.Life == LSingleton {
		if sc.Kind == OwFailedBuild {
			return sc
		}
		return Owner{OwProvider, 0}
	}
	return sc
}

func analyse(h *H) *Analysis {
	a := &Analysis{h: h, m: h.model, ops: h.allOps, faultInOp: map[int]bool{}}
	for _, op := range a.ops {
		if op.Op.Kind == OpBuild {
			a.buildOp = op
			a.buildOK = op.Err == nil && op.Panic == nil && op.Aborted == ""
		}
		if op.Op.Kind == OpFinish {
			a.finOp = op
		}
	}
	for _, inv := range h.invs {
		if inv.Fault != nil && inv.Op >= 0 {
			a.faultInOp[inv.Op] = true
		}
	}
	for _, f := range h.faults {
		if f.Kind == FBuildCancel && f.Fired > 0 && a.buildOp != nil {
			a.faultInOp[a.buildOp.GID] = true
			a.buildCancelled = true
		}
	}
	a.collectDeliveries()
	return a
}

func (a *Analysis) collectDeliveries() {
	m := a.m
	for _, op := range a.ops {
		if !op.Done || op.Err != nil || op.Panic != nil {
			continue
		}
		switch op.Op.Kind {
		case OpResolve:
			p, ok := m.Reg.Services[op.Op.Id]
			if !ok || len(op.Insts) != 1 {
				continue
			}
			a.deliveries = append(a.deliveries, Delivery{Site: "resolve", Op: op.GID, Inv: -1, Prov: p, Inst: op.Insts[0], Scope: a.scopeOfOp(op), Seq: op.EndSeq})
		case OpResolveGroup:
			members := m.Reg.Groups[Ident{T: op.Op.Id.T, Group: op.Op.Id.Group}]
			if len(members) != len(op.Insts) {
				continue // reported by C04.args
			}
			for i, p := range members {
				a.deliveries = append(a.deliveries, Delivery{Site: "group-elem", Op: op.GID, Inv: -1, Prov: p, Inst: op.Insts[i], Scope: a.scopeOfOp(op), Seq: op.EndSeq})
			}
		}
	}
	for _, inv := range a.h.invs {
		r := m.regs[inv.Reg]
		sc := a.scopeOfInv(inv)
		for i, d := range r.Deps {
			if i >= len(inv.Args) {
				break
			}
			t := m.Reg.target(d)
			rec := inv.Args[i]
			if d.Ignore || t.Builtin {
				continue
			}
			if d.Group != "" {
				if rec.Kind != ArgSlice || len(rec.Insts) != len(t.Members) {
					continue
				}
				for k, p := range t.Members {
					if rec.Insts[k] >= 0 {
						a.deliveries = append(a.deliveries, Delivery{Site: "group-arg", Op: inv.Op, Inv: inv.ID, Prov: p, Inst: rec.Insts[k], Scope: sc, Seq: inv.EnterSeq})
					}
				}
				continue
			}
			if rec.Kind == ArgInst && len(t.Members) == 1 {
				a.deliveries = append(a.deliveries, Delivery{Site: "arg", Op: inv.Op, Inv: inv.ID, Prov: t.Members[0], Inst: rec.Insts[0], Scope: sc, Seq: inv.EnterSeq})
			}
		}
	}
}

func (a *Analysis) inst(id int) *Inst {
	if id < 0 || id >= len(a.h.insts) {
		return nil
	}
	return a.h.insts[id]
}

func (a *Analysis) describeDelivery(d Delivery) string {
	if d.Inv >= 0 {
		inv := a.h.invs[d.Inv]
		return fmt.Sprintf("%s of r%d#%d (op%d, %s)", d.Site, inv.Reg, inv.N, d.Op, d.Scope)
	}
	return fmt.Sprintf("%s in op%d (%s)", d.Site, d.Op, d.Scope)
}

// ---------------------------------------------------------------------------
// Closing causes: when may an instance of a given owner be closed?

// closeCauseSeq returns the earliest sequence number at which a legitimate
// reason to dispose owner o started: a Close call on the owning scope, an
// ancestor or the provider; a cancellation of a context the scope (or an
// ancestor) hangs off. 0 = never.
func (a *Analysis) closeCauseSeq(o Owner) int {
	best := 0
	upd := func(s int) {
		if s > 0 && (best == 0 || s < best) {
			best = s
		}
	}
	var handles []int
	switch o.Kind {
	case OwProvider, OwRoot:
		handles = []int{0}
	case OwScope:
		for hid := o.ID; hid >= 0; {
			handles = append(handles, hid)
			hd := a.h.handle(hid)
			if hd == nil {
				break
			}
			hid = hd.Parent
			if hid == hd.ID {
				break
			}
		}
	case OwFailedBuild:
		if a.buildOp != nil {
			return a.buildOp.StartSeq
		}
	case OwFailedCreate:
		return a.ops[o.ID].StartSeq
	}
	isH := map[int]bool{}
	for _, x := range handles {
		isH[x] = true
	}
	for _, op := range a.ops {
		if (op.Op.Kind == OpClose || op.Op.Kind == OpFinish) && isH[op.Handle] {
			upd(op.StartSeq)
		}
	}
	if o.Kind == OwScope {
		for _, hid := range handles {
			hd := a.h.handle(hid)
			if hd != nil && hd.CancelSeq > 0 {
				upd(hd.CancelSeq)
			}
		}
	}
	return best
}

// ---------------------------------------------------------------------------
// Rules.

func (a *Analysis) evaluate() []Violation {
	a.ruleWiring()
	a.ruleLifetimes()
	a.ruleScopedInit()
	a.ruleTransientCount()
	a.ruleDisposal()
	a.ruleCloseCalls()
	a.ruleRefuse()
	a.ruleOpValidity()
	a.ruleSched()
	a.ruleBuildVerdict()
	a.ruleBuiltins()
	a.ruleErrors()
	a.ruleLeaks()
	a.ruleOrder()
	a.ruleHeld()
	// C09.valid: results must respect the lifetime rules also under concurrency
	for _, v := range a.vs {
		switch v.Rule {
		case "C01.same", "C01.once", "C02.one", "C02.isolated", "C03.fresh":
			a.vs = append(a.vs, Violation{Prop: "C09", Rule: "C09.lifetime", Shape: v.Rule + "/" + v.Shape, Msg: v.Msg})
			if strings.Contains(v.Msg, "arg of ") && (v.Rule == "C02.isolated" || v.Rule == "C03.fresh" || v.Rule == "C02.one") {
				// a constructor argument that belongs to another request (another scope's instance, a
				// transient handed to somebody else): the parameter did not receive ITS instance
				a.vs = append(a.vs, Violation{Prop: "C04", Rule: "C04.args", Shape: "crossed/" + v.Rule, Msg: v.Msg})
			}
		}
	}
	return a.vs
}

// C04.args / C04.ident: every delivery comes from the registration the model
// assigns to that identity; group lengths; optional / ignored fields.
func (a *Analysis) ruleWiring() {
	m := a.m
	for _, d := range a.deliveries {
		in := a.inst(d.Inst)
		if in == nil {
			continue
		}
		if in.Reg != d.Prov.Reg || in.OutIdx != d.Prov.OutIdx {
			a.add("C04", "C04.args", regShape(m.regs[d.Prov.Reg]),
				"%s: identity %s is registered by r%d output %d but the delivered instance #%d was produced by r%d output %d",
				a.describeDelivery(d), d.Prov.Id, d.Prov.Reg, d.Prov.OutIdx, in.ID, in.Reg, in.OutIdx)
			if m.regs[d.Prov.Reg].Life == LSingleton {
				a.add("C01", "C01.outputs", regShape(m.regs[d.Prov.Reg]),
					"%s: singleton identity %s must resolve to output %d of r%d (its one construction / registered value) but instance #%d of r%d output %d was delivered",
					a.describeDelivery(d), d.Prov.Id, d.Prov.OutIdx, d.Prov.Reg, in.ID, in.Reg, in.OutIdx)
			}
			if m.regs[d.Prov.Reg].Life == LScoped {
				a.add("C02", "C02.one", regShape(m.regs[d.Prov.Reg])+"/foreign", "%s: scoped identity %s (r%d output %d) was served with instance #%d of r%d output %d",
					a.describeDelivery(d), d.Prov.Id, d.Prov.Reg, d.Prov.OutIdx, in.ID, in.Reg, in.OutIdx)
			}
		}
	}
	// group shape + optional + ignored on every invocation
	for _, inv := range a.h.invs {
		r := m.regs[inv.Reg]
		for i, dep := range r.Deps {
			if i >= len(inv.Args) {
				break
			}
			rec := inv.Args[i]
			t := m.Reg.target(dep)
			switch {
			case dep.Ignore:
				if rec.Kind != ArgNil {
					a.add("C04", "C04.args", "ignored-field", "r%d#%d: field %d tagged inject:\"-\" was populated", inv.Reg, inv.N, i)
				}
			case t.Builtin:
			case dep.Group != "":
				n := len(t.Members)
				got := -1
				if rec.Kind == ArgSlice {
					got = len(rec.Insts)
				} else if rec.Kind == ArgNil {
					got = 0
					if n == 0 {
						// "an empty slice if there are none": a nil slice has length 0; accepted
					}
				}
				if got != n {
					a.add("C04", "C04.args", "group-arg", "r%d#%d: group field %s has %d members registered but received %d", inv.Reg, inv.N, dep, n, got)
				}
			case t.Missing:
				if dep.Optional && rec.Kind != ArgNil {
					a.add("C04", "C04.args", "optional-missing", "r%d#%d: optional field %s has no registration but is non-zero", inv.Reg, inv.N, dep)
				}
			default:
				if rec.Kind == ArgNil {
					// registered dependency delivered as nil
					if a.nilFaultFired(t.Members[0].Reg) {
						// the producing constructor was made to return nil: delivering nil is accepted
					} else if dep.Optional && (a.faultInOp[inv.Op] || a.anyFault()) {
						// (a fault earlier in the run - e.g. a singleton left nil at Build - can make the
						// optional service unresolvable now; the swallowed error is the same finding)
						a.add("C15", "C15.optional", "optional-swallow", "r%d#%d: optional field %s is registered, its construction failed, and the failure was swallowed (field left nil)", inv.Reg, inv.N, dep)
					} else {
						a.add("C04", "C04.args", "nil-arg/"+regShape(r), "r%d#%d: parameter %s is registered (r%d) but nil was injected", inv.Reg, inv.N, dep, t.Members[0].Reg)
						if pr := m.regs[t.Members[0].Reg]; pr.Life == LTransient && pr.Form != FInstance {
							a.add("C03", "C03.count", "site-without-construction/"+regShape(r), "r%d#%d: request site %s of transient r%d received no instance (no constructor run for this site)", inv.Reg, inv.N, dep, pr.ID)
						}
					}
				}
			}
		}
	}
	// resolve results: group lengths; identities that must (not) resolve
	for _, op := range a.ops {
		if !op.Done || op.Panic != nil || op.Aborted != "" {
			continue
		}
		switch op.Op.Kind {
		case OpResolveGroup:
			if op.Err == nil {
				n := len(m.Reg.Groups[Ident{T: op.Op.Id.T, Group: op.Op.Id.Group}])
				if len(op.Insts) != n {
					a.add("C04", "C04.args", "group-resolve", "op%d %s: %d members registered, %d returned", op.GID, op.Op, n, len(op.Insts))
				}
			}
		case OpResolve:
			_, reg := m.Reg.Services[op.Op.Id]
			if !reg && op.Err == nil && !isBuiltinIdent(op.Op.Id) {
				a.add("C04", "C04.ident", "probe", "op%d %s resolved although no registration provides that identity", op.GID, op.Op)
			}
			if !reg && op.Err != nil && !hasClass(op.Classes, ENotFound) && !hasClass(op.Classes, EScopeDisposed) && !hasClass(op.Classes, EProviderDisposed) {
				a.add("C04", "C04.ident", "probe-class", "op%d %s: unregistered identity failed with %v instead of not-found", op.GID, op.Op, op.Err)
			}
		}
	}
}

func isBuiltinIdent(id Ident) bool { return false }

// C01.same / C02.one / C02.isolated / C03.fresh over deliveries; C01.once.
func (a *Analysis) ruleLifetimes() {
	m := a.m
	type pk struct{ reg, out int }
	single := map[pk]int{}
	type sk struct {
		reg, out int
		sc       Owner
	}
	scoped := map[sk]int{}
	scopedOwner := map[int]Owner{}
	transSeen := map[int]Delivery{}
	for _, d := range a.deliveries {
		in := a.inst(d.Inst)
		if in == nil || in.Reg != d.Prov.Reg {
			continue // wiring rule reports it
		}
		r := m.regs[d.Prov.Reg]
		if r.Form == FInstance {
			continue
		}
		switch r.Life {
		case LSingleton:
			k := pk{d.Prov.Reg, d.Prov.OutIdx}
			if prev, ok := single[k]; ok && prev != d.Inst {
				a.add("C01", "C01.same", regShape(r), "singleton r%d output %d observed as two instances: #%d and #%d (%s)", k.reg, k.out, prev, d.Inst, a.describeDelivery(d))
			} else {
				single[k] = d.Inst
			}
		case LScoped:
			if d.Scope.Kind == OwUnknown {
				continue
			}
			k := sk{d.Prov.Reg, d.Prov.OutIdx, d.Scope}
			if prev, ok := scoped[k]; ok && prev != d.Inst {
				a.add("C02", "C02.one", regShape(r), "scoped r%d output %d has two instances in %s: #%d and #%d (%s)", k.reg, k.out, d.Scope, prev, d.Inst, a.describeDelivery(d))
			} else {
				scoped[k] = d.Inst
			}
			if prev, ok := scopedOwner[d.Inst]; ok && prev != d.Scope {
				a.add("C02", "C02.isolated", regShape(r), "scoped instance #%d (r%d) was delivered in %s and in %s", d.Inst, in.Reg, prev, d.Scope)
			} else {
				scopedOwner[d.Inst] = d.Scope
			}
		case LTransient:
			if prev, ok := transSeen[d.Inst]; ok {
				a.add("C03", "C03.fresh", regShape(r), "transient instance #%d (r%d) handed out twice: %s and %s", d.Inst, in.Reg, a.describeDelivery(prev), a.describeDelivery(d))
			} else {
				transSeen[d.Inst] = d
			}
		}
	}
	// successful constructions per (scope, scoped reg) and per singleton
	if a.buildOK {
		okInv := map[int]int{}
		scopedInv := map[sk]int{}
		for _, inv := range a.h.invs {
			r := m.regs[inv.Reg]
			if r.Life == LSingleton {
				okInv[inv.Reg]++
				if a.buildOp != nil && (inv.EnterSeq < a.buildOp.StartSeq || inv.EnterSeq > a.buildOp.EndSeq) {
					a.add("C01", "C01.once", regShape(r), "singleton constructor r%d ran outside Build (invocation #%d in op%d)", inv.Reg, inv.N, inv.Op)
				}
			}
			if r.Life == LScoped && inv.Outcome == OutOK && r.Form != FVoid && r.Form != FVoidErr {
				if inv.Op >= 0 {
					op := a.ops[inv.Op]
					if hasClass(op.Classes, EScopeDisposed) || hasClass(op.Classes, EProviderDisposed) {
						// constructed while the scope was being closed: the instance was
						// rejected (and disposed), it never became the scope's instance
						continue
					}
				}
				sc := a.scopeOfInv(inv)
				if sc.Kind != OwUnknown {
					scopedInv[sk{inv.Reg, 0, sc}]++
				}
			}
		}
		for _, r := range m.Cfg.Regs {
			if r.Life != LSingleton || r.Form == FInstance || !m.V.Accepted[r.ID] {
				continue
			}
			if okInv[r.ID] != 1 && !a.ctorFailFault() {
				a.add("C01", "C01.once", regShape(r), "singleton constructor r%d ran %d times (Build succeeded)", r.ID, okInv[r.ID])
			}
		}
		for k, n := range scopedInv {
			if n > 1 {
				a.add("C02", "C02.one", regShape(m.regs[k.reg])+"/ctor-count", "scoped constructor r%d completed successfully %d times in %s", k.reg, n, k.sc)
			}
		}
	}
}

// stackHead: the godi frames of a panic stack.
func stackHead(stk string) string {
	var out []string
	lines := strings.Split(stk, "\n")
	for i := 0; i+1 < len(lines) && len(out) < 6; i++ {
		if strings.Contains(lines[i], "junioryono/godi/v4") && !strings.Contains(lines[i], "/simrt.") {
			out = append(out, "    "+strings.TrimSpace(lines[i])+" "+strings.TrimSpace(lines[i+1]))
		}
	}
	return strings.Join(out, "\n")
}

// nilResultExplains: may a "there is no instance" error of op be put down to a
// constructor that was made to return nil? Yes if that happened inside op. Also
// if it happened earlier to a singleton (built once, at Build) or to a
// constructor with several results (it has run, its nil result stays nil for
// the owner's lifetime). Not for a single-result scoped / transient constructor:
// its failed construction leaves nothing behind, a later attempt starts afresh.
func (a *Analysis) nilResultExplains(op *OpResult) bool {
	if a.faultInOp[op.GID] {
		return true
	}
	for _, f := range a.h.faults {
		if f.Kind != FCtorNil || f.Fired == 0 || f.Reg < 0 {
			continue
		}
		r := a.m.regs[f.Reg]
		if r.Life == LSingleton || len(r.Outs) > 1 {
			return true
		}
	}
	return false
}

func (a *Analysis) nilFaultFired(reg int) bool {
	for _, f := range a.h.faults {
		if f.Kind == FCtorNil && f.Fired > 0 && (reg < 0 || f.Reg == reg) {
			return true
		}
	}
	return false
}

// ctorFailFault: did a constructor return an error or panic? (A constructor made
// to return nil, or a failing Close, does not excuse a singleton constructor from
// running exactly once in a Build that succeeded.)
func (a *Analysis) ctorFailFault() bool {
	for _, f := range a.h.faults {
		if f.Fired > 0 && (f.Kind == FCtorErr || f.Kind == FCtorPanic) {
			return true
		}
	}
	return false
}

func (a *Analysis) anyFault() bool {
	for _, f := range a.h.faults {
		if f.Fired > 0 {
			return true
		}
	}
	return false
}

// C02.init: void scoped registrations run exactly once per scope, at creation.
func (a *Analysis) ruleScopedInit() {
	m := a.m
	if !a.buildOK {
		return
	}
	for _, r := range m.Cfg.Regs {
		if !(r.Form == FVoid || r.Form == FVoidErr) || !m.V.Accepted[r.ID] {
			continue
		}
		perOp := map[int]int{}
		for _, inv := range a.h.invs {
			if inv.Reg != r.ID {
				continue
			}
			perOp[inv.Op]++
			if inv.Op >= 0 {
				k := a.ops[inv.Op].Op.Kind
				if r.Life == LScoped && k != OpBuild && k != OpCreateScope {
					a.add("C02", "C02.init", "void-scoped", "scoped initializer r%d ran during %s (op%d), not at scope creation", r.ID, opNames[k], inv.Op)
				}
			}
		}
		if r.Life != LScoped {
			continue
		}
		for _, op := range a.ops {
			if !op.Done || op.Panic != nil || op.Aborted != "" {
				continue
			}
			created := (op.Op.Kind == OpCreateScope && op.NewH >= 0) || (op.Op.Kind == OpBuild && op.Err == nil)
			if created && perOp[op.GID] != 1 {
				a.add("C02", "C02.init", "void-scoped", "scoped initializer r%d ran %d times for the scope created by op%d (%s)", r.ID, perOp[op.GID], op.GID, opNames[op.Op.Kind])
			}
		}
	}
}

// C03.count: in a successful, fault-free operation the number of successful
// invocations of a transient registration equals the number of request sites.
func (a *Analysis) ruleTransientCount() {
	m := a.m
	type k struct{ op, reg int }
	inv := map[k]int{}
	del := map[k]int{}
	for _, v := range a.h.invs {
		if m.regs[v.Reg].Life == LTransient && v.Outcome == OutOK {
			inv[k{v.Op, v.Reg}]++
		}
	}
	for _, d := range a.deliveries {
		if m.regs[d.Prov.Reg].Life == LTransient && m.regs[d.Prov.Reg].Form != FInstance {
			del[k{d.Op, d.Prov.Reg}]++
		}
	}
	for kk, n := range inv {
		if kk.op < 0 {
			continue
		}
		op := a.ops[kk.op]
		if !op.Done || op.Err != nil || op.Panic != nil || op.Aborted != "" || a.faultInOp[kk.op] {
			continue
		}
		if del[kk] != n {
			a.add("C03", "C03.count", regShape(m.regs[kk.reg]), "op%d %s: transient r%d was constructed %d times for %d request sites", kk.op, op.Op, kk.reg, n, del[kk])
		}
	}
	for kk, n := range del {
		if _, ok := inv[kk]; !ok && n > 0 && kk.op >= 0 {
			op := a.ops[kk.op]
			if op.Done && op.Err == nil && !a.faultInOp[kk.op] {
				a.add("C03", "C03.count", regShape(m.regs[kk.reg]), "op%d %s: %d deliveries of transient r%d without any construction in that operation", kk.op, op.Op, n, kk.reg)
			}
		}
	}
}

// C10 / C12.all: closed exactly once, not early, untouched.
func (a *Analysis) ruleDisposal() {
	m := a.m
	finished := a.finOp != nil && a.finOp.Done && a.finOp.Aborted == ""
	for _, in := range a.h.insts {
		r := m.regs[in.Reg]
		if in.wrongCloses > 0 {
			a.add("C10", "C10.untouched", "no-error-close", "instance #%d (r%d, %s): Close() without error result was called %d times", in.ID, in.Reg, r.Outs[in.OutIdx].Concrete, in.wrongCloses)
		}
		if in.Inv < 0 {
			continue // user-created value
		}
		inv := a.h.invs[in.Inv]
		disp := r.Outs[in.OutIdx].Concrete.IsDisp()
		if !disp {
			continue
		}
		if inv.Outcome != OutOK {
			continue
		}
		ow := a.ownerOf(in)
		shape := regShape(r) + "/" + []string{"provider", "root", "scope", "failed-create", "failed-build", "unknown"}[ow.Kind]
		if in.closeCount > 1 {
			a.add("C10", "C10.once", shape+"/twice", "instance #%d (r%d out %d, owner %s) was closed %d times", in.ID, in.Reg, in.OutIdx, ow, in.closeCount)
			a.add("C12", "C12.idem", ownerKind(ow)+"/closed-twice", "instance #%d (r%d out %d, owner %s) was closed %d times (tasks %v): a repeated or concurrent Close closed it again", in.ID, in.Reg, in.OutIdx, ow, in.closeCount, in.closeTask[:min(in.closeCount, 4)])
		}
		if in.closeCount == 0 {
			switch {
			case ow.Kind == OwFailedBuild:
				a.add("C10", "C10.once", shape+"/leak", "instance #%d (r%d) was created by a Build that failed and was never closed", in.ID, in.Reg)
			case finished:
				a.add("C10", "C10.once", shape+"/leak", "instance #%d (r%d out %d, owner %s) was never closed although the provider was closed at the end of the run", in.ID, in.Reg, in.OutIdx, ow)
			case a.buildOp != nil && !a.buildOK && a.buildOp.Done:
				a.add("C10", "C10.once", shape+"/leak", "instance #%d (r%d) was never closed (Build failed)", in.ID, in.Reg)
			}
			continue
		}
		// not early
		cs := in.closeSeq[0]
		cause := a.closeCauseSeq(ow)
		if ow.Kind == OwProvider {
			// singleton: only a provider Close may close it
			if cause == 0 || cs < cause {
				a.add("C10", "C10.notEarly", shape, "singleton instance #%d (r%d) was closed at seq %d before any provider Close started (%d)", in.ID, in.Reg, cs, cause)
			}
			continue
		}
		if cause == 0 || cs < cause {
			// construction overlapping a close is covered: cause <= cs always holds then
			a.add("C10", "C10.notEarly", shape, "instance #%d (r%d, owner %s) was closed at seq %d but no Close/cancel of its owner had started (%d)", in.ID, in.Reg, ow, cs, cause)
		}
	}
}

// closeEventsIn lists instance-Close events executed by task within [s,e].
func (a *Analysis) closeEventsIn(task, s, e int) []Event {
	var out []Event
	for _, ev := range a.h.evts {
		if ev.Kind == EvCloseEnter && ev.Task == task && ev.Seq >= s && ev.Seq <= e {
			out = append(out, ev)
		}
	}
	return out
}

// C12.report / C12.idem on every Close call.
func (a *Analysis) ruleCloseCalls() {
	firstEnd := map[int]int{} // handle -> earliest return of a Close call
	for _, op := range a.ops {
		if (op.Op.Kind == OpClose || op.Op.Kind == OpFinish) && op.Handle >= 0 && op.Done && op.Panic == nil && op.Aborted == "" {
			if s, ok := firstEnd[op.Handle]; !ok || op.EndSeq < s {
				firstEnd[op.Handle] = op.EndSeq
			}
		}
	}
	for _, op := range a.ops {
		if !(op.Op.Kind == OpClose || op.Op.Kind == OpFinish) || op.Handle < 0 || !op.Done || op.Panic != nil || op.Aborted != "" {
			continue
		}
		task := a.h.taskOfOp(op)
		evs := a.closeEventsIn(task, op.StartSeq, op.EndSeq)
		failed := 0
		for _, ev := range evs {
			in := a.inst(ev.Inst)
			if in != nil && in.closeErr != nil && in.closeSeq[0] == ev.Seq {
				failed++
			}
		}
		isDisposal := hasClass(op.Classes, EDisposal)
		kind := "scope"
		if op.Handle == 0 {
			kind = "provider"
		}
		if failed > 0 && !isDisposal {
			a.add("C12", "C12.report", kind, "op%d %s on h%d: %d instance Close calls failed inside this call but it returned %v", op.GID, op.Op, op.Handle, failed, op.Err)
		}
		if failed == 0 && op.Err != nil && a.failedClosesDuring(op, false) == 0 {
			a.add("C12", "C12.report", kind+"/spurious", "op%d %s on h%d returned %v although no instance Close of its subtree failed while it ran", op.GID, op.Op, op.Handle, op.Err)
		}
		if fe, ok := firstEnd[op.Handle]; ok && op.StartSeq > fe {
			if op.Err != nil {
				a.add("C12", "C12.idem", kind, "op%d: repeated Close of h%d returned %v", op.GID, op.Handle, op.Err)
			}
			if len(evs) > 0 {
				a.add("C12", "C12.idem", kind+"/work", "op%d: repeated Close of h%d closed %d instances itself", op.GID, op.Handle, len(evs))
			}
		}
	}
}

// failedClosesDuring counts the instance Close calls of op's subtree that
// returned an error between op's start and its return. unreportedOnly: leave out
// those executed by another client task (inside that task's own Close call, which
// receives the error).
func (a *Analysis) failedClosesDuring(op *OpResult, unreportedOnly bool) int {
	me := a.h.taskOfOp(op)
	tasks := a.h.sim.Tasks()
	isClient := func(t int) bool { return t >= 0 && t < len(tasks) && tasks[t].Client }
	n := 0
	for _, ev := range a.h.evts {
		if ev.Kind != EvCloseEnter || ev.Seq > op.EndSeq {
			continue
		}
		if ev.Seq < op.StartSeq && (unreportedOnly || isClient(ev.Task)) {
			// before the call: only a failure met by a cancellation watcher counts, and only as
			// something the call MAY still report (the scope may have been in the middle of its
			// unattended disposal when the call found it)
			continue
		}
		in := a.inst(ev.Inst)
		if in == nil || in.closeErr == nil || in.closeCount == 0 || in.closeSeq[0] != ev.Seq {
			continue
		}
		ow := a.ownerOf(in)
		inSub := false
		switch {
		case op.Handle == 0:
			inSub = ow.Kind == OwScope || ow.Kind == OwRoot || ow.Kind == OwProvider
		case ow.Kind == OwScope:
			inSub = ow.ID == op.Handle || a.descendantOf(ow.ID, op.Handle)
		}
		if !inSub {
			continue
		}
		if unreportedOnly && ev.Task != me && isClient(ev.Task) {
			continue
		}
		if unreportedOnly && ow.Kind == OwScope {
			// another caller's Close of the owner or of one of its ancestors that ran at the same time and
			// returned a disposal error may be the one that reported this failure (it waits for the
			// watcher and takes its error over): then it has not been lost
			reportedElsewhere := false
			for _, y := range a.ops {
				if y == op || !(y.Op.Kind == OpClose || y.Op.Kind == OpFinish) || !y.Done || y.Handle <= 0 || !hasClass(y.Classes, EDisposal) {
					continue
				}
				if y.EndSeq < ev.Seq || y.StartSeq > op.EndSeq {
					continue
				}
				if y.Handle == ow.ID || a.descendantOf(ow.ID, y.Handle) {
					reportedElsewhere = true
				}
			}
			if reportedElsewhere {
				continue
			}
			// a watcher woken by the caller's own cancellation of a context has nobody to report to,
			// and that is nobody else's business: only watchers woken by this very Close count
			userCancelled := false
			for hid := ow.ID; hid > 0 && hid != op.Handle; {
				hd := a.h.handle(hid)
				if hd == nil {
					break
				}
				if hd.CancelSeq > 0 && hd.CancelSeq <= ev.Seq {
					userCancelled = true
				}
				if hd.Parent == hid {
					break
				}
				hid = hd.Parent
			}
			if userCancelled {
				continue
			}
		}
		n++
	}
	return n
}

func (h *H) taskOfOp(op *OpResult) int {
	return h.opTask[op.GID]
}

// closedBefore: was handle hid certainly closed before seq?
//   - a Close call on hid itself returned before seq (the disposed flag is set by
//     whichever caller won, before any caller returns), or
//   - a Close call on an ancestor x (or the provider) returned before seq and the
//     cascade is certainly complete: no Close call on x or on any of x's own
//     ancestors is still in flight at seq and no context on that chain was
//     cancelled (a watcher goroutine may then be the one doing the work while an
//     explicit Close returns early as a no-op).
func (a *Analysis) closedBefore(hid, seq int) (bool, int) {
	chainOf := func(x int) []int {
		var c []int
		for x >= 0 {
			c = append(c, x)
			hd := a.h.handle(x)
			if hd == nil || hd.Parent == x {
				break
			}
			x = hd.Parent
		}
		if len(c) == 0 || c[len(c)-1] != 0 {
			c = append(c, 0)
		}
		return c
	}
	returned := func(x int) bool {
		for _, op := range a.ops {
			if (op.Op.Kind == OpClose || op.Op.Kind == OpFinish) && op.Handle == x && op.Done && op.Panic == nil && op.Aborted == "" && op.EndSeq < seq {
				return true
			}
		}
		return false
	}
	quiet := func(chain []int) bool {
		in := map[int]bool{}
		for _, x := range chain {
			in[x] = true
			if hd := a.h.handle(x); hd != nil && hd.CancelSeq > 0 && hd.CancelSeq < seq {
				return false
			}
		}
		for _, op := range a.ops {
			if (op.Op.Kind == OpClose || op.Op.Kind == OpFinish) && in[op.Handle] && op.StartSeq < seq && !(op.Done && op.EndSeq < seq) {
				return false
			}
		}
		return true
	}
	if returned(hid) {
		return true, hid
	}
	chain := chainOf(hid)
	for i, x := range chain {
		if i == 0 {
			continue
		}
		if returned(x) && quiet(chain[i:]) {
			return true, x
		}
	}
	return false, -1
}

// C13.refuse: use after a Close returned fails with the disposed error.
func (a *Analysis) ruleRefuse() {
	for _, op := range a.ops {
		switch op.Op.Kind {
		case OpResolve, OpResolveGroup, OpCreateScope:
		default:
			continue
		}
		if !op.Done || op.Aborted != "" || op.Handle < 0 {
			continue
		}
		closed, by := a.closedBefore(op.Handle, op.StartSeq)
		if !closed {
			continue
		}
		if op.ViaRoot {
			// the root scope is disposed in the course of the provider's Close, not at its start: a
			// Close call that lost the race returns at once while the winner is still at work, and
			// until the winner is through the root scope answers normally (the overlap case)
			busy := false
			for _, c := range a.ops {
				if (c.Op.Kind == OpClose || c.Op.Kind == OpFinish) && c.Handle == 0 && c.StartSeq < op.StartSeq && !(c.Done && c.EndSeq < op.StartSeq) {
					busy = true
				}
			}
			if busy {
				continue
			}
		}
		want := EScopeDisposed
		if op.Handle == 0 {
			want = EProviderDisposed
		}
		shape := opNames[op.Op.Kind]
		if by != op.Handle {
			shape += "/after-ancestor-close"
		}
		if op.Handle == 0 {
			shape += "/provider"
		}
		if op.Panic != nil {
			a.add("C13", "C13.refuse", shape+"/panic", "op%d %s on h%d after Close of h%d returned: panicked with %v", op.GID, op.Op, op.Handle, by, op.Panic)
			continue
		}
		if op.ViaRoot && hasClass(op.Classes, EScopeDisposed) {
			// issued on the provider's root scope, which is a scope: the scope-disposed error is as good
			continue
		}
		if !hasClass(op.Classes, want) {
			a.add("C13", "C13.refuse", shape, "op%d %s on h%d was invoked after Close of h%d had returned, result: err=%v insts=%v (want %s)", op.GID, op.Op, op.Handle, by, op.Err, op.Insts, errClassNames[want])
		}
	}
	// end-of-run probes recorded by Finish
	for _, pr := range a.h.probes {
		if pr.Panic != nil {
			a.add("C13", "C13.cascade", "probe-panic", "after %s: use of h%d panicked: %v", pr.When, pr.Handle, pr.Panic)
			continue
		}
		want := EScopeDisposed
		if pr.Handle == 0 {
			want = EProviderDisposed
		}
		_, cls := classify(pr.Err)
		if !hasClass(cls, want) {
			rule := "C13.cascade"
			if pr.When == "cancel+settle" {
				rule = "C13.cancel"
			}
			a.add("C13", rule, pr.When+"/"+pr.What, "after %s: %s on h%d returned err=%v (want %s)", pr.When, pr.What, pr.Handle, pr.Err, errClassNames[want])
			// the same observation under C09: a scope that survived the Close / cancellation of what
			// it hangs on answers with something that is neither a valid result nor a documented error
			a.add("C09", "C09.valid", "escaped-scope/"+pr.When, "after %s: %s on h%d returned err=%v (want %s): the scope escaped the close of its chain", pr.When, pr.What, pr.Handle, pr.Err, errClassNames[want])
		}
	}
}

// overlapsClose: did a closing cause for the handle's chain start before the op ended?
func (a *Analysis) closingStartedBefore(hid, seq int) bool {
	for x := hid; x >= 0; {
		c := a.closeCauseSeq(Owner{OwScope, x})
		if x == 0 {
			c = a.closeCauseSeq(Owner{OwRoot, 0})
		}
		if c > 0 && c <= seq {
			return true
		}
		hd := a.h.handle(x)
		if hd == nil || hd.Parent == x {
			break
		}
		x = hd.Parent
	}
	c := a.closeCauseSeq(Owner{OwRoot, 0})
	return c > 0 && c <= seq
}

// Every call returns a valid result or a documented, justified error;
// never a panic, never (nil, nil). Reported under the property of the check
// that asks (C09.valid / C13.overlap / C15.nopanic / C08.found).
func (a *Analysis) ruleOpValidity() {
	m := a.m
	for _, op := range a.ops {
		if !op.Done {
			continue
		}
		kind := op.Op.Kind
		if kind == OpWaitBuilt {
			continue
		}
		overlap := op.Handle >= 0 && a.closingStartedBefore(op.Handle, op.EndSeq)
		oshape := opNames[kind]
		if overlap {
			oshape += "||Close"
		}
		if op.Panic != nil {
			a.add("C15", "C15.nopanic", oshape, "op%d %s panicked: %v\n%s", op.GID, op.Op, op.Panic, stackHead(op.PanicStk))
			a.add("C09", "C09.panic", oshape, "op%d %s panicked: %v\n%s", op.GID, op.Op, op.Panic, stackHead(op.PanicStk))
			if overlap {
				a.add("C13", "C13.overlap", oshape+"/panic", "op%d %s overlapping a Close panicked: %v\n%s", op.GID, op.Op, op.Panic, stackHead(op.PanicStk))
			}
			continue
		}
		if op.Aborted == "op-yield-budget" {
			a.add("C05", "C05.term", oshape, "op%d %s did not terminate within the yield budget", op.GID, op.Op)
			a.add("C09", "C09.deadlock", oshape+"/budget", "op%d %s did not terminate within the yield budget", op.GID, op.Op)
			continue
		}
		if op.Aborted != "" {
			continue
		}
		if op.IsNilRes {
			a.add("C13", "C13.overlap", oshape+"/nil", "op%d %s returned (nil, nil)", op.GID, op.Op)
			a.add("C09", "C09.valid", oshape+"/nil", "op%d %s returned (nil, nil)", op.GID, op.Op)
			a.add("C15", "C15.noCache", oshape+"/nil", "op%d %s returned (nil, nil): neither a service nor an error", op.GID, op.Op)
			continue
		}
		if op.TypedNil && !a.nilFaultFired(-1) {
			a.add("C13", "C13.overlap", oshape+"/typed-nil", "op%d %s returned a nil instance without error", op.GID, op.Op)
			a.add("C09", "C09.valid", oshape+"/typed-nil", "op%d %s returned a nil instance without error", op.GID, op.Op)
		}
		if op.Err == nil || kind == OpBuild || kind == OpClose || kind == OpFinish {
			continue
		}
		// error: must be justified
		just := false
		var why []string
		if hasClass(op.Classes, ENotFound) {
			registered := false
			if kind == OpResolve {
				_, registered = m.Reg.Services[op.Op.Id]
			}
			if kind == OpResolve && !registered {
				just = true
			} else if m.V.Missing {
				just = true // a required dependency is missing in the model: C08 judges Build
				if a.buildOK {
					a.add("C08", "C08.found", "missing-dep", "op%d %s failed with not-found after a successful Build: %v", op.GID, op.Op, op.Err)
				}
			} else if a.nilResultExplains(op) && (hasClass(op.Classes, ESingletonNotInit) || hasClass(op.Classes, ENilInstance)) {
				// a constructor was made to return nil for this output: there is no instance to hand out.
				// The statement does not prescribe the error class of that situation.
				just = true
			} else {
				why = append(why, "not-found for a registered identity")
				a.add("C08", "C08.found", "registered", "op%d %s failed with not-found although everything it needs is registered: %v", op.GID, op.Op, op.Err)

			}
		}
		if !just && a.nilResultExplains(op) && (hasClass(op.Classes, ESingletonNotInit) || hasClass(op.Classes, ENilInstance)) {
			just = true
		}
		if hasClass(op.Classes, EScopeDisposed) || hasClass(op.Classes, EProviderDisposed) {
			if overlap {
				just = true
			} else {
				why = append(why, "disposed error without any Close/cancel")
			}
		}
		if hasClass(op.Classes, ECtorErr) || hasClass(op.Classes, ECtorPanic) {
			if a.faultInOp[op.GID] {
				just = true
			} else {
				why = append(why, "constructor failure without an injected fault")
			}
		}
		if !just && a.faultInOp[op.GID] {
			// ctor-nil etc.: some failure is expected, class not prescribed here
			just = true
		}
		if !just {
			shape := oshape + "/" + errClassNames[op.Class]
			msg := fmt.Sprintf("op%d %s returned an unjustified error (%s): %v", op.GID, op.Op, strings.Join(why, "; "), op.Err)
			a.add("C09", "C09.valid", shape, "%s", msg)
			a.add("C13", "C13.overlap", shape, "%s", msg)
			a.add("C08", "C08.found", shape, "%s", msg)
			a.add("C15", "C15.classes", shape, "%s", msg)
			if a.buildOK && !a.anyFault() && !overlap {
				// fault-free, no Close in sight: every way of obtaining a registered singleton / scoped
				// service yields its instance - an error is not "the same instance"
				var provs []Provision
				if pv, ok := m.Reg.Services[op.Op.Id]; ok && kind == OpResolve {
					provs = append(provs, pv)
				}
				if kind == OpResolveGroup {
					provs = append(provs, m.Reg.Groups[Ident{T: op.Op.Id.T, Group: op.Op.Id.Group}]...)
				}
				seenC01, seenC02 := false, false
				if len(provs) > 0 {
					// "... are resolvable under exactly those identities"
					a.add("C04", "C04.ident", regShape(m.regs[provs[0].Reg])+"/unresolvable", "op%d %s: identity %s is registered (r%d output %d) and nothing failed, yet it cannot be resolved: %v", op.GID, op.Op, provs[0].Id, provs[0].Reg, provs[0].OutIdx, firstLine(op.Err))
				}
				for _, pv := range provs {
					switch r := m.regs[pv.Reg]; {
					case r.Life == LSingleton && !seenC01:
						seenC01 = true
						a.add("C01", "C01.same", regShape(r)+"/unresolvable", "op%d %s: singleton identity %s (r%d output %d) of a successfully built provider cannot be obtained: %v", op.GID, op.Op, pv.Id, pv.Reg, pv.OutIdx, firstLine(op.Err))
					case r.Life == LScoped && !seenC02:
						seenC02 = true
						a.add("C02", "C02.one", regShape(r)+"/unresolvable", "op%d %s: scoped identity %s (r%d output %d) cannot be obtained in this scope: %v", op.GID, op.Op, pv.Id, pv.Reg, pv.OutIdx, firstLine(op.Err))
					}
				}
			}
		}
	}
}

// Scheduler verdicts.
func (a *Analysis) ruleSched() {
	v := a.h.verdict
	if len(v.StuckClients) > 0 {
		var sites []string
		for _, t := range a.h.sim.Tasks() {
			if !t.Done() || true {
				_ = t
			}
		}
		for _, s := range v.StuckSites {
			sites = append(sites, siteName(s))
		}
		sort.Strings(sites)
		a.add("C09", "C09.deadlock", "stuck", "client tasks %v can make no progress; parked at: %s", v.StuckClients, strings.Join(sites, " | "))
		a.add("C13", "C13.overlap", "hang", "client tasks %v can make no progress; parked at: %s", v.StuckClients, strings.Join(sites, " | "))
		a.add("C05", "C05.term", "hang", "a resolution never terminates: client tasks %v can make no progress; parked at: %s", v.StuckClients, strings.Join(sites, " | "))
		a.add("C02", "C02.one", "hang", "client tasks %v can make no progress; parked at: %s", v.StuckClients, strings.Join(sites, " | "))
	}
	for _, t := range a.h.sim.Tasks() {
		if !t.Client && t.Panic != nil {
			a.add("C09", "C09.panic", "spawned-task", "goroutine started by godi (%s) panicked: %v", t.Name, t.Panic)
			a.add("C13", "C13.overlap", "spawned-task/panic", "goroutine started by godi (%s) panicked: %v", t.Name, t.Panic)
			a.add("C15", "C15.nopanic", "spawned-task", "goroutine started by godi (%s) panicked: %v", t.Name, t.Panic)
		}
	}
}

// singleClient: exact-order rules are asserted only on histories with one
// client task and no context cancellation (the statement quantifies over
// configurations x histories, not schedules).
func (a *Analysis) singleClient() bool {
	if a.h.nClients != 1 {
		return false
	}
	for _, op := range a.ops {
		if op.Op.Kind == OpCancel {
			return false
		}
	}
	return true
}

func (a *Analysis) descendantOf(hid, anc int) bool {
	for x := hid; x >= 0; {
		hd := a.h.handle(x)
		if hd == nil || hd.Parent == x {
			return false
		}
		x = hd.Parent
		if x == anc {
			return true
		}
	}
	return false
}

// C11.scopesFirst in any schedule: an instance constructed inside an operation
// that succeeded is held by its scope, and provider.Close disposes every scope
// before any singleton - so such an instance is closed before the first
// singleton is, and certainly by the time a provider Close has returned. (An
// instance whose operation failed may have been rejected by a scope that was
// closing; it is closed on the spot, whenever that is, and is not judged here.)
func (a *Analysis) ruleScopesBeforeSingletons() {
	m := a.m
	firstSing, singInst := 0, -1
	for _, in := range a.h.insts {
		if in.Inv < 0 || in.closeCount == 0 || !m.regs[in.Reg].Outs[in.OutIdx].Concrete.IsDisp() {
			continue
		}
		if a.ownerOf(in).Kind == OwProvider && (firstSing == 0 || in.closeSeq[0] < firstSing) {
			firstSing, singInst = in.closeSeq[0], in.ID
		}
	}
	provClosed := 0 // earliest return of a provider Close
	for _, op := range a.ops {
		if (op.Op.Kind == OpClose || op.Op.Kind == OpFinish) && op.Handle == 0 && op.Done && op.Panic == nil && op.Aborted == "" {
			if provClosed == 0 || op.EndSeq < provClosed {
				provClosed = op.EndSeq
			}
		}
	}
	if firstSing == 0 && provClosed == 0 {
		return
	}
	for _, in := range a.h.insts {
		if in.Inv < 0 || !m.regs[in.Reg].Outs[in.OutIdx].Concrete.IsDisp() {
			continue
		}
		inv := a.h.invs[in.Inv]
		if inv.Outcome != OutOK || inv.Op < 0 {
			continue
		}
		op := a.ops[inv.Op]
		if !op.Done || op.Err != nil || op.Panic != nil || op.Aborted != "" {
			continue
		}
		ow := a.ownerOf(in)
		if ow.Kind != OwScope {
			continue
		}
		switch {
		case in.closeCount == 0 && provClosed > 0 && a.finOp != nil && a.finOp.Done:
			a.add("C11", "C11.scopesFirst", "escaped", "instance #%d (r%d, created by op%d %s which succeeded, owner %s) was never closed although provider Close returned (seq %d): its scope outlived the provider's singletons", in.ID, in.Reg, op.GID, op.Op, ow, provClosed)
			if op.Handle >= 0 && a.closingStartedBefore(op.Handle, op.EndSeq) {
				// the operation overlapped a Close and "completed normally", yet what it returned is owned by
				// nobody: a half-initialised result
				msg := fmt.Sprintf("op%d %s overlapped a Close and returned successfully, but instance #%d (r%d) it constructed is tracked by no scope: it was never closed although the scope and the provider have been closed", op.GID, op.Op, in.ID, in.Reg)
				a.add("C13", "C13.overlap", opNames[op.Op.Kind]+"||Close/orphan", "%s", msg)
				a.add("C09", "C09.valid", opNames[op.Op.Kind]+"||Close/orphan", "%s", msg)
			}
		case in.closeCount > 0 && firstSing > 0 && in.closeSeq[0] > firstSing:
			a.add("C11", "C11.scopesFirst", "late", "instance #%d (r%d, created by op%d %s which succeeded, owner %s) was closed at seq %d, after singleton instance #%d had been closed (seq %d)", in.ID, in.Reg, op.GID, op.Op, ow, in.closeSeq[0], singInst, firstSing)
		}
	}
}

// ruleCloseComplete (any schedule): a Close call that is the first cause of its
// handle's disposal (no earlier Close of the handle or an ancestor, no earlier
// cancellation) returns only after every instance of the handle's subtree that
// an already finished, successful operation had created has been closed -
// also when a descendant is being closed by somebody else at that moment (its
// own Close, its cancellation watcher): the caller waits for that to finish.
func (a *Analysis) ruleCloseComplete() {
	m := a.m
	for _, op := range a.ops {
		if !(op.Op.Kind == OpClose || op.Op.Kind == OpFinish) || !op.Done || op.Handle < 0 || op.Panic != nil || op.Aborted != "" {
			continue
		}
		ownerH := Owner{OwScope, op.Handle}
		if op.Handle == 0 {
			ownerH = Owner{OwRoot, 0}
		}
		if a.closeCauseSeq(ownerH) != op.StartSeq {
			continue
		}
		// sole closer: no other Close of this handle or an ancestor, and no cancellation of their
		// creation contexts, before this call returned (a Close that loses against another closer
		// of the same scope returns at once, while the winner is still at work: C12.idem)
		sole := true
		for hid := op.Handle; hid >= 0 && sole; {
			for _, y := range a.ops {
				if y != op && (y.Op.Kind == OpClose || y.Op.Kind == OpFinish) && y.Handle == hid && y.StartSeq <= op.EndSeq {
					sole = false
				}
			}
			hd := a.h.handle(hid)
			if hd == nil {
				break
			}
			if hd.CancelSeq > 0 && hd.CancelSeq <= op.EndSeq {
				sole = false
			}
			if hd.Parent == hid {
				break
			}
			hid = hd.Parent
		}
		if !sole {
			continue
		}
		// C12.report for a sole closer: a failing instance Close anywhere in its subtree while it ran -
		// also one executed by a cancellation watcher that this very Close woke up, whose error would
		// otherwise reach nobody - makes it return a disposal error
		if n := a.failedClosesDuring(op, true); n > 0 && !hasClass(op.Classes, EDisposal) {
			a.add("C12", "C12.report", "sole-closer/lost", "op%d %s on h%d returned %v although %d instance Close calls in its subtree failed while it ran (none of them inside another caller's Close)", op.GID, op.Op, op.Handle, op.Err, n)
		}
		for _, in := range a.h.insts {
			if in.Inv < 0 || !m.regs[in.Reg].Outs[in.OutIdx].Concrete.IsDisp() {
				continue
			}
			inv := a.h.invs[in.Inv]
			if inv.Outcome != OutOK || inv.Op < 0 {
				continue
			}
			cop := a.ops[inv.Op]
			if !cop.Done || cop.Err != nil || cop.Panic != nil || cop.Aborted != "" || cop.EndSeq >= op.StartSeq {
				continue
			}
			ow := a.ownerOf(in)
			inSub := false
			switch {
			case op.Handle == 0:
				inSub = ow.Kind == OwScope || ow.Kind == OwRoot || ow.Kind == OwProvider
			case ow.Kind == OwScope:
				inSub = ow.ID == op.Handle || a.descendantOf(ow.ID, op.Handle)
			}
			if !inSub {
				continue
			}
			if in.closeCount == 0 || in.closeSeq[0] > op.EndSeq {
				when := "never"
				if in.closeCount > 0 {
					when = fmt.Sprintf("only at seq %d", in.closeSeq[0])
				}
				msg := fmt.Sprintf("Close of h%d (op%d, seq %d-%d) returned while instance #%d (r%d, owner %s, created by op%d which had finished) was still open (closed %s)", op.Handle, op.GID, op.StartSeq, op.EndSeq, in.ID, in.Reg, ow, cop.GID, when)
				a.add("C10", "C10.once", ownerKind(ow)+"/open-after-owner-close", "%s", msg)
				a.add("C12", "C12.all", "left-open/any-schedule", "%s", msg)
				a.add("C11", "C11.childrenFirst", "left-open/any-schedule", "%s", msg)
				a.add("C13", "C13.cascade", "left-open", "%s", msg)
			}
		}
	}
}

// C11: disposal order.
func (a *Analysis) ruleOrder() {
	m := a.m
	type item struct {
		in   *Inst
		done int // constructor completion
		cls  int // close seq
	}
	byOwner := map[Owner][]item{}
	for _, in := range a.h.insts {
		if in.Inv < 0 || in.closeCount != 1 {
			continue
		}
		r := m.regs[in.Reg]
		if !r.Outs[in.OutIdx].Concrete.IsDisp() {
			continue
		}
		inv := a.h.invs[in.Inv]
		if inv.Outcome != OutOK {
			continue
		}
		ow := a.ownerOf(in)
		if ow.Kind == OwFailedBuild && r.Life != LSingleton {
			// the partial provider of a failed Build has two lists like any other: its root scope's
			// (transients pulled in by singletons, closed first) and the singletons'
			ow.ID = 1
		}
		byOwner[ow] = append(byOwner[ow], item{in, inv.ExitSeq, in.closeSeq[0]})
	}
	exact := a.singleClient()
	for ow, items := range byOwner {
		if ow.Kind == OwUnknown {
			continue
		}
		// C11.depFirst (also asserted in concurrent runs): a holder is closed before what it received
		inList := map[int]item{}
		for _, it := range items {
			inList[it.in.ID] = it
		}
		for _, it := range items {
			inv := a.h.invs[it.in.Inv]
			if !exact {
				// a holder whose operation overlapped the Close of its scope and was refused is
				// disposed on the spot (C13), not as part of the scope's ordered disposal
				if inv.Op < 0 || !a.ops[inv.Op].Done || a.ops[inv.Op].Err != nil || a.ops[inv.Op].Panic != nil {
					continue
				}
			}
			for _, ar := range inv.Args {
				for _, dep := range ar.Insts {
					d, ok := inList[dep]
					if !ok || d.in.ID == it.in.ID {
						continue
					}
					if d.cls < it.cls {
						a.add("C11", "C11.depFirst", regShape(m.regs[it.in.Reg]), "in %s: instance #%d (r%d) was closed at seq %d while #%d (r%d), which received it as a dependency, was still open (closed at %d)", ow, d.in.ID, d.in.Reg, d.cls, it.in.ID, it.in.Reg, it.cls)
					}
				}
			}
		}
		if !exact {
			continue
		}
		// C11.reverse: exactly the reverse of creation order
		for i := range items {
			for j := range items {
				x, y := items[i], items[j]
				if x.done < y.done && x.in.Inv != y.in.Inv && x.cls < y.cls {
					a.add("C11", "C11.reverse", ownerKind(ow), "in %s: #%d (r%d) was created before #%d (r%d) (seq %d < %d) but also closed before it (seq %d < %d)", ow, x.in.ID, x.in.Reg, y.in.ID, y.in.Reg, x.done, y.done, x.cls, y.cls)
				}
			}
		}
	}
	a.ruleScopesBeforeSingletons()
	a.ruleCloseComplete()
	if !exact {
		return
	}
	// C11.childrenFirst / C11.scopesFirst inside every Close extent
	for _, op := range a.ops {
		if !(op.Op.Kind == OpClose || op.Op.Kind == OpFinish) || !op.Done || op.Handle < 0 || op.Panic != nil {
			continue
		}
		task := a.h.taskOfOp(op)
		evs := a.closeEventsIn(task, op.StartSeq, op.EndSeq)
		firstOwn, lastDesc, descInst := 0, 0, -1
		firstSingleton, lastScoped, scopedInst := 0, 0, -1
		for _, ev := range evs {
			in := a.inst(ev.Inst)
			if in == nil || in.Inv < 0 {
				continue
			}
			ow := a.ownerOf(in)
			switch {
			case op.Handle == 0:
				if ow.Kind == OwProvider {
					if firstSingleton == 0 || ev.Seq < firstSingleton {
						firstSingleton = ev.Seq
					}
				} else if ev.Seq > lastScoped {
					lastScoped, scopedInst = ev.Seq, in.ID
				}
			case ow.Kind == OwScope && ow.ID == op.Handle:
				if firstOwn == 0 || ev.Seq < firstOwn {
					firstOwn = ev.Seq
				}
			case ow.Kind == OwScope && a.descendantOf(ow.ID, op.Handle):
				if ev.Seq > lastDesc {
					lastDesc, descInst = ev.Seq, in.ID
				}
			}
		}
		// everything owned by a descendant scope that existed when the Close started
		// must have been disposed by the time the Close returns (and before the
		// scope's own instances), whatever Close methods failed on the way
		if op.Handle > 0 || op.Handle == 0 {
			for _, in := range a.h.insts {
				if in.Inv < 0 || !a.m.regs[in.Reg].Outs[in.OutIdx].Concrete.IsDisp() {
					continue
				}
				inv := a.h.invs[in.Inv]
				if inv.Outcome != OutOK || inv.ExitSeq > op.StartSeq {
					continue
				}
				ow := a.ownerOf(in)
				inSubtree := ow.Kind == OwScope && (a.descendantOf(ow.ID, op.Handle) || op.Handle == 0)
				if !inSubtree {
					// the provider's own instances (singletons, root scope): closed by the time its Close returns
					if op.Handle == 0 && (ow.Kind == OwProvider || ow.Kind == OwRoot) && (in.closeCount == 0 || in.closeSeq[0] > op.EndSeq) {
						a.add("C12", "C12.all", "left-open/"+ownerKind(ow), "provider Close (op%d) returned while instance #%d (r%d, owner %s) had not been closed", op.GID, in.ID, in.Reg, ow)
					}
					continue
				}
				late := in.closeCount == 0 || in.closeSeq[0] > op.EndSeq
				if late {
					a.add("C11", "C11.childrenFirst", "left-open", "Close of h%d (op%d) returned while instance #%d (r%d) of descendant %s was still open", op.Handle, op.GID, in.ID, in.Reg, ow)
					a.add("C12", "C12.all", "left-open", "Close of h%d (op%d) returned while instance #%d (r%d) of descendant %s was still open", op.Handle, op.GID, in.ID, in.Reg, ow)
				} else if firstOwn > 0 && in.closeSeq[0] > firstOwn {
					a.add("C11", "C11.childrenFirst", "scope", "Close of h%d (op%d): instance #%d of descendant %s was closed (seq %d) after the scope had started disposing its own instances (seq %d)", op.Handle, op.GID, in.ID, ow, in.closeSeq[0], firstOwn)
				}
			}
		}
		if firstOwn > 0 && lastDesc > firstOwn {
			a.add("C11", "C11.childrenFirst", "scope", "Close of h%d (op%d): instance #%d of a descendant scope was closed (seq %d) after the scope had started disposing its own instances (seq %d)", op.Handle, op.GID, descInst, lastDesc, firstOwn)
		}
		if firstSingleton > 0 && lastScoped > firstSingleton {
			a.add("C11", "C11.scopesFirst", "provider", "provider Close (op%d): scoped/transient instance #%d was closed (seq %d) after a singleton had been closed (seq %d)", op.GID, scopedInst, lastScoped, firstSingleton)
		}
		// root-scope (provider handle) children: scopes created on the provider are descendants of the provider close
		if op.Handle == 0 {
			firstRoot, lastChild, childInst := 0, 0, -1
			for _, ev := range evs {
				in := a.inst(ev.Inst)
				if in == nil || in.Inv < 0 {
					continue
				}
				ow := a.ownerOf(in)
				if ow.Kind == OwRoot && (firstRoot == 0 || ev.Seq < firstRoot) {
					firstRoot = ev.Seq
				}
				if ow.Kind == OwScope && ev.Seq > lastChild {
					lastChild, childInst = ev.Seq, in.ID
				}
			}
			_ = firstRoot
			_ = lastChild
			_ = childInst
		}
	}
}

func ownerKind(o Owner) string {
	return []string{"provider", "root", "scope", "failed-create", "failed-build", "unknown"}[o.Kind]
}

// C07.held: no singleton/transient ever receives an instance of a scoped registration.
func (a *Analysis) ruleHeld() {
	m := a.m
	if !a.buildOK {
		return
	}
	for _, inv := range a.h.invs {
		r := m.regs[inv.Reg]
		if r.Life == LScoped {
			continue
		}
		for i, ar := range inv.Args {
			for _, id := range ar.Insts {
				in := a.inst(id)
				if in == nil || in.Inv < 0 {
					continue
				}
				if m.regs[in.Reg].Life == LScoped {
					dep := "?"
					if i < len(r.Deps) {
						dep = r.Deps[i].String()
					}
					a.add("C07", "C07.held", regShape(r), "%s r%d#%d was constructed with instance #%d of scoped registration r%d (parameter %s) after a successful Build", lifeNames[r.Life], inv.Reg, inv.N, in.ID, in.Reg, dep)
				}
			}
		}
	}
}
