package main

import (
	"context"
	"fmt"
	"reflect"
	"runtime/debug"

	"github.com/junioryono/godi/v4"
	"github.com/junioryono/godi/v4/simrt"
)

// Case is one fully decoded simulated case.
type Case struct {
	Prop   string
	Cfg    *Config
	Progs  [][]Op
	Faults []*Fault
	// run knobs (drawn from the ops stream)
	Strategy  int
	StickyNum int
	UserOnly  bool
	PCTDepth  int
}

func (c *Case) Describe() map[string]any {
	progs := [][]string{}
	for _, p := range c.Progs {
		var s []string
		for _, o := range p {
			s = append(s, o.String())
		}
		progs = append(progs, s)
	}
	var fs []string
	for _, f := range c.Faults {
		fs = append(fs, f.String())
	}
	return map[string]any{
		"registrations":   c.Cfg.Strings(),
		"programs":        progs,
		"faults":          fs,
		"strategy":        []string{"uniform", "sticky", "pct"}[c.Strategy],
		"user_sites_only": c.UserOnly,
	}
}

func (g *gen) genKnobs(c *Case) {
	c.Strategy = g.n(StOps, 3)
	c.StickyNum = 4 + g.n(StOps, 4)
	c.PCTDepth = 1 + g.n(StOps, 3)
	c.UserOnly = g.p(StOps, g.o.SchedUserOnly)
}

// runCase executes the case under the simulator and returns the populated H.
func runCase(c *Case, tape *Tape) *H {
	godi.SimResetCounters()
	h := newH(c.Cfg, tape)
	h.faults = c.Faults
	h.progs = c.Progs
	h.nClients = len(c.Progs)
	h.results = make([][]*OpResult, len(c.Progs)+1)
	sim := simrt.New(simrt.Config{
		Draw:      func(stream, n int) int { return tape.Choose(StSched+stream, n) },
		Strategy:  c.Strategy,
		StickyNum: c.StickyNum,
		UserOnly:  c.UserOnly,
		PCTDepth:  c.PCTDepth,
	})
	h.sim = sim
	for ti := range c.Progs {
		ti := ti
		sim.AddClient(fmt.Sprintf("client%d", ti), nil, func(t *simrt.Task) {
			defer h.clientDone()
			for j, op := range c.Progs[ti] {
				if !h.runOp(t, ti, j, op) {
					return
				}
			}
		})
	}
	fin := len(c.Progs)
	sim.AddClient("fin", nil, func(t *simrt.Task) {
		h.runOp(t, fin, 0, Op{Kind: OpFinish})
	})
	h.verdict = sim.Run()
	return h
}

//go:norace
func (h *H) clientDone() { h.clientsDone.Add(1) }

//go:norace
func (h *H) beginOp(t *simrt.Task, ti, idx int, op Op) *OpResult {
	res := &OpResult{GID: h.opGID, Task: ti, Idx: idx, Op: op, Handle: -1, NewH: -1}
	h.opGID++
	h.curOp[t.ID] = res.GID
	h.results[ti] = append(h.results[ti], res)
	if len(h.allOps) >= cap(h.allOps) {
		trouble("op table overflow")
	}
	h.allOps = h.allOps[:len(h.allOps)+1]
	h.allOps[res.GID] = res
	h.opTask = h.opTask[:len(h.opTask)+1]
	h.opTask[res.GID] = t.ID
	return res
}

// runOp executes one operation; returns false if the task must stop (abort).
//
//go:norace
func (h *H) runOp(t *simrt.Task, ti, idx int, op Op) (cont bool) {
	simrt.BeginOp()
	res := h.beginOp(t, ti, idx, op)
	cont = true
	defer func() {
		if r := recover(); r != nil {
			if a, ok := r.(*simrt.Abort); ok {
				res.Aborted = a.Reason
				h.endOp(t, res)
				if a.Reason == "teardown" {
					panic(a)
				}
				cont = false
				return
			}
			if te, ok := r.(troubleErr); ok {
				panic(te)
			}
			res.Panic = r
			res.PanicStk = string(debug.Stack())
			if t.Aborted != nil {
				res.Aborted = t.Aborted.Reason
			}
		}
		h.endOp(t, res)
	}()
	switch op.Kind {
	case OpBuild:
		res.StartSeq = h.event(EvOpStart, -1, -1)
		h.doBuild(res)
	case OpWaitBuilt:
		h.waitFor(func() bool { return h.built.Load() != 0 })
		res.StartSeq = h.event(EvOpStart, -1, -1)
	case OpFinish:
		h.waitFor(func() bool { return int(h.clientsDone.Load()) >= h.nClients })
		h.doFinish(t, res)
	default:
		if h.built.Load() != 1 {
			res.StartSeq = h.event(EvOpStart, -1, -1)
			res.Aborted = "not-built"
			return
		}
		hd := h.pick(op)
		res.Handle = hd.ID
		h.curH[t.ID] = hd.ID
		res.StartSeq = h.event(EvOpStart, -1, -1)
		simrt.Yield(siteOpStart)
		h.doOp(t, res, hd, op)
	}
	return
}

//go:norace
func (h *H) endOp(t *simrt.Task, res *OpResult) {
	res.EndSeq = h.event(EvOpEnd, -1, -1)
	res.Done = true
	h.curOp[t.ID] = -1
	h.curH[t.ID] = -1
}

//go:norace
func (h *H) waitFor(cond func() bool) {
	if cond() {
		return
	}
	simrt.Block(siteWait, cond)
}

//go:norace
func (h *H) handle(i int) *Handle {
	if i < 0 || i >= int(h.nHandles.Load()) {
		return nil
	}
	return h.slots[i].Load()
}

//go:norace
func (h *H) publish(hd *Handle) int {
	id := int(h.nHandles.Load())
	if id >= maxHandles {
		trouble("handle table overflow")
	}
	hd.ID = id
	h.slots[id].Store(hd)
	h.nHandles.Store(int32(id + 1))
	return id
}

//go:norace
func (h *H) pick(op Op) *Handle {
	n := int(h.nHandles.Load())
	return h.slots[op.HSel%n].Load()
}

//go:norace
func (h *H) setErr(res *OpResult, err error) {
	res.Err = err
	res.Class, res.Classes = classify(err)
}

//go:norace
func (h *H) doBuild(res *OpResult) {
	c := godi.NewCollection()
	h.coll = c
	h.regErrs = make([]error, len(h.cfg.Regs))
	for i, r := range h.cfg.Regs {
		h.regErrs[i] = h.addReg(c, r)
	}
	var p godi.Provider
	var err error
	cancellable := false
	for _, f := range h.faults {
		if f.Kind == FBuildCancel {
			cancellable = true
		}
	}
	if cancellable {
		h.buildCtx = h.newCtx(nil, nil, nil)
		p, err = c.BuildWithContext(h.buildCtx)
	} else {
		p, err = c.Build()
	}
	h.setErr(res, err)
	h.buildErr = err
	if err != nil {
		h.built.Store(2)
		return
	}
	h.prov = p
	if v, e := p.Get(scopeType); e == nil {
		h.rootScope, _ = v.(godi.Scope)
	}
	res.NewH = h.publish(&Handle{Kind: HProvider, Prov: p, Parent: -1, ByTask: res.Task, ByOp: res.GID})
	h.built.Store(1)
}

//go:norace
func (h *H) recResult(res *OpResult, v any) {
	if v == nil {
		res.IsNilRes = true
		return
	}
	if rv := reflect.ValueOf(v); rv.Kind() == reflect.Pointer && rv.IsNil() {
		res.Insts = append(res.Insts, -1) // typed nil
		res.TypedNil = true
		return
	}
	if in, ok := asInst(v); ok {
		res.Insts = append(res.Insts, in.ID)
		return
	}
	res.Builtin = v
}

//go:norace
func (h *H) doOp(t *simrt.Task, res *OpResult, hd *Handle, op Op) {
	p := hd.P()
	// every third operation aimed at the provider goes through the provider's own root scope
	// (what Resolve[Scope](provider) hands out): same instances, same errors, its children are
	// scopes of the provider like any other
	if hd.Kind == HProvider && h.rootScope != nil && res.GID%3 == 0 {
		switch op.Kind {
		case OpResolve, OpResolveGroup, OpCreateScope:
			p = h.rootScope
			res.ViaRoot = true
		}
	}
	switch op.Kind {
	case OpResolve:
		var v any
		var err error
		if n, ok := intKey(op.Id.Key); ok {
			v, err = p.GetKeyed(op.Id.T.RT(), n)
		} else if op.Id.Key != "" {
			v, err = p.GetKeyed(op.Id.T.RT(), op.Id.Key)
		} else {
			v, err = p.Get(op.Id.T.RT())
		}
		h.setErr(res, err)
		if err == nil {
			h.recResult(res, v)
		}
	case OpResolveGroup:
		vs, err := p.GetGroup(op.Id.T.RT(), op.Id.Group)
		h.setErr(res, err)
		if err == nil {
			for _, v := range vs {
				if rv := reflect.ValueOf(v); v == nil || (rv.Kind() == reflect.Pointer && rv.IsNil()) {
					res.Insts = append(res.Insts, -1)
					res.TypedNil = true
					continue
				}
				if in, ok := asInst(v); ok {
					res.Insts = append(res.Insts, in.ID)
				} else {
					res.Insts = append(res.Insts, -1)
				}
			}
		}
	case OpCreateScope:
		var ctx context.Context
		var sc *simContext
		var stdCancel context.CancelFunc
		var valKey, valVal any
		detached := false
		switch op.CtxKind {
		case CtxNil:
		case CtxBackground:
			ctx = context.Background()
		case CtxFresh:
			sc = h.newCtx(nil, nil, nil)
			ctx = sc
		case CtxValue:
			sc = h.newCtx(nil, ctxKey{res.GID}, res.GID)
			ctx = sc
		case CtxFromScope:
			if hd.Kind == HScope {
				ctx, stdCancel = context.WithCancel(hd.Scope.Context())
			} else {
				sc = h.newCtx(nil, nil, nil)
				ctx = sc
			}
		case CtxValueOnly:
			base := context.Background()
			if hd.Kind == HScope && res.GID%2 == 1 {
				base = context.WithoutCancel(hd.Scope.Context())
				detached = true
			}
			valKey, valVal = ctxKey{res.GID}, res.GID
			ctx = context.WithValue(base, valKey, valVal)
		}
		s, err := p.CreateScope(ctx)
		h.setErr(res, err)
		if err == nil {
			if s == nil {
				res.IsNilRes = true
				return
			}
			nh := &Handle{Kind: HScope, Scope: s, Parent: hd.ID, CtxKind: op.CtxKind, Ctx: sc, ByTask: res.Task, ByOp: res.GID, ScopeCtx: s.Context(), StdCancel: stdCancel, ValKey: valKey, ValVal: valVal, Detached: detached}
			res.NewH = h.publish(nh)
		} else if sc != nil {
			sc.failedCreate = true
		}
	case OpClose:
		err := p.Close()
		h.setErr(res, err)
	case OpCancel:
		if hd.Ctx != nil {
			if hd.CancelSeq == 0 {
				hd.CancelSeq = h.event(EvCancel, -1, -1)
			}
			hd.Ctx.Cancel()
		} else if hd.StdCancel != nil {
			if hd.CancelSeq == 0 {
				hd.CancelSeq = h.event(EvCancel, -1, -1)
			}
			hd.StdCancel()
		} else {
			res.Aborted = "no-ctx"
		}
		if res.Aborted == "" {
			// the cancellation must be visible at once (no task has run in between) in the
			// context of the scope itself and of every scope whose context derives from it
			n := int(h.nHandles.Load())
			for i := 1; i < n; i++ {
				d := h.handle(i)
				if d == nil || d.ScopeCtx == nil || !h.ctxDerivesFrom(d, hd) {
					continue
				}
				if d.ScopeCtx.Err() == nil {
					res.CtxNotCancelled = append(res.CtxNotCancelled, i)
				}
			}
		}
	case OpFromContext:
		if hd.Kind == HScope {
			s, err := godi.FromContext(hd.ScopeCtx)
			h.setErr(res, err)
			res.Builtin = s
		} else {
			res.Aborted = "no-ctx"
		}
	}
}

// intKey: probe keys of the form "int:<n>" stand for the int n (nothing is ever registered
// under an int key, so such an identity must not resolve).
func intKey(k string) (int, bool) {
	if len(k) > 4 && k[:4] == "int:" {
		n := 0
		for _, c := range k[4:] {
			n = n*10 + int(c-'0')
		}
		return n, true
	}
	return 0, false
}

// ctxDerivesFrom: is d's creation context hd's creation context or derived from it?
// (d == hd; or d was created on a scope with a nil context / a context derived from that
// scope's context, and that scope's context derives from hd's)
//
//go:norace
func (h *H) ctxDerivesFrom(d, hd *Handle) bool {
	for x := d; x != nil; {
		if x.ID == hd.ID {
			return true
		}
		if x.Parent <= 0 || !(x.CtxKind == CtxNil || x.CtxKind == CtxFromScope) {
			return false
		}
		x = h.handle(x.Parent)
	}
	return false
}
