package main

import (
	"errors"
	"fmt"
	"reflect"
	"sort"
	"strings"
	"time"

	"github.com/junioryono/godi/v4/simgraph"
	"github.com/junioryono/godi/v4/simrt"
)

// graphEngine: sequences of mutations and queries on the real dependency
// graph (internal/graph, re-exported by the generated simgraph shim) against a
// plain reference digraph, run inside one simulated task so that every map
// iteration inside the graph is permuted by the simulator's map-order stream.
type graphEngine struct{}

func (e *graphEngine) Name() string { return "graph-sim" }

// node pool: types x keys x groups
type gKey struct {
	T     TypeRef
	Key   any
	Group string
}

var gPool = []gKey{
	{T: 0}, {T: 0, Key: "k0"}, {T: 1}, {T: 1, Group: "g0"}, {T: 2, Key: 1, Group: "g0"}, {T: 2},
	{T: 3}, {T: 4}, {T: 5}, {T: 6}, {T: 7, Key: "k1"}, {T: 7},
}

func (k gKey) NK() simgraph.NodeKey {
	return simgraph.NodeKey{Type: k.T.RT(), Key: k.Key, Group: k.Group}
}

func (k gKey) String() string {
	s := k.T.String()
	if k.Key != nil {
		s += fmt.Sprintf("#%v", k.Key)
	}
	if k.Group != "" {
		s += "@" + k.Group
	}
	return s
}

type gProvider struct {
	k    gKey
	deps []*simgraph.Dependency
}

func (p *gProvider) GetType() reflect.Type                   { return p.k.T.RT() }
func (p *gProvider) GetKey() any                             { return p.k.Key }
func (p *gProvider) GetGroup() string                        { return p.k.Group }
func (p *gProvider) GetDependencies() []*simgraph.Dependency { return p.deps }

func mkProvider(k gKey, deps []int) *gProvider {
	p := &gProvider{k: k}
	for _, d := range deps {
		dk := gPool[d]
		p.deps = append(p.deps, &simgraph.Dependency{Type: dk.T.RT(), Key: dk.Key, Group: dk.Group})
	}
	return p
}

// reference digraph
type refNode struct {
	provider bool
	deps     []int
}

type refGraph struct {
	nodes map[int]*refNode
}

func newRef() *refGraph { return &refGraph{nodes: map[int]*refNode{}} }

func (r *refGraph) clone() *refGraph {
	c := newRef()
	for k, n := range r.nodes {
		c.nodes[k] = &refNode{provider: n.provider, deps: append([]int(nil), n.deps...)}
	}
	return c
}

func (r *refGraph) add(v int, deps []int) {
	n := r.nodes[v]
	if n == nil {
		n = &refNode{}
		r.nodes[v] = n
	}
	n.provider = true
	n.deps = append([]int(nil), deps...)
	for _, d := range deps {
		if r.nodes[d] == nil {
			r.nodes[d] = &refNode{}
		}
	}
}

func (r *refGraph) remove(v int) {
	if r.nodes[v] == nil {
		return
	}
	delete(r.nodes, v)
	for _, n := range r.nodes {
		kept := n.deps[:0]
		for _, d := range n.deps {
			if d != v {
				kept = append(kept, d)
			}
		}
		n.deps = kept
	}
}

// cyclic: is there a directed cycle (Tarjan-free: DFS colours)?
func (r *refGraph) cyclic() bool {
	col := map[int]int{}
	var dfs func(v int) bool
	dfs = func(v int) bool {
		col[v] = 1
		if n := r.nodes[v]; n != nil {
			for _, d := range n.deps {
				if col[d] == 1 {
					return true
				}
				if col[d] == 0 && dfs(d) {
					return true
				}
			}
		}
		col[v] = 2
		return false
	}
	for v := range r.nodes {
		if col[v] == 0 && dfs(v) {
			return true
		}
	}
	return false
}

func (r *refGraph) hasEdge(a, b int) bool {
	if n := r.nodes[a]; n != nil {
		for _, d := range n.deps {
			if d == b {
				return true
			}
		}
	}
	return false
}

func (r *refGraph) trans(v int) map[int]bool {
	out := map[int]bool{}
	var walk func(x int)
	walk = func(x int) {
		if n := r.nodes[x]; n != nil {
			for _, d := range n.deps {
				if !out[d] {
					out[d] = true
					walk(d)
				}
			}
		}
	}
	walk(v)
	return out
}

func (r *refGraph) depth(v int, memo map[int]int) int {
	if d, ok := memo[v]; ok {
		return d
	}
	best := 0
	if n := r.nodes[v]; n != nil {
		for _, d := range n.deps {
			if x := r.depth(d, memo) + 1; x > best {
				best = x
			}
		}
	}
	memo[v] = best
	return best
}

const (
	gAddImm = iota
	gAddDeferredBatch
	gRemove
	gClear
	gQueryAgain
	gDigraph // one-shot: feed a whole digraph
)

type gOp struct {
	Kind  int
	V     int
	Deps  []int
	Batch []gOp // deferred adds
}

func (o gOp) String() string {
	switch o.Kind {
	case gAddImm:
		return fmt.Sprintf("AddProvider(%s <- %s)", gPool[o.V], depNames(o.Deps))
	case gAddDeferredBatch:
		var s []string
		for _, b := range o.Batch {
			if b.Kind == gRemove {
				s = append(s, fmt.Sprintf("remove %s", gPool[b.V]))
				continue
			}
			s = append(s, fmt.Sprintf("%s <- %s", gPool[b.V], depNames(b.Deps)))
		}
		return "Deferred{" + strings.Join(s, "; ") + "}+DetectCycles"
	case gRemove:
		return fmt.Sprintf("RemoveProvider(%s)", gPool[o.V])
	case gClear:
		return "Clear"
	case gQueryAgain:
		return "queries"
	}
	return "?"
}

func depNames(d []int) string {
	var s []string
	for _, x := range d {
		s = append(s, gPool[x].String())
	}
	return "[" + strings.Join(s, ",") + "]"
}

type graphCase struct {
	Ops  []gOp
	Pool int
	Kind string
	// Readers > 0: the ops run on one task while Readers other tasks call the
	// read-side queries (TopologicalSort, DetectCycles, GetDependents, ...) concurrently
	Readers int
}

func (c *graphCase) Describe() map[string]any {
	var s []string
	for _, o := range c.Ops {
		s = append(s, o.String())
	}
	return map[string]any{"engine": "graph-sim", "kind": c.Kind, "pool_size": c.Pool, "ops": s, "concurrent_reader_tasks": c.Readers}
}

// number of systematic digraph cases per tier
func digraphPrefix(tier string) int {
	if tier == "thorough" {
		return 512 + 65536
	}
	return 512 + 4096
}

func decodeGraphCase(tier string, idx int, tape *Tape) *graphCase {
	// systematic prefix: every digraph on 3 nodes (and on 4 nodes in thorough,
	// a 4096-graph slice of them in quick), fed alternately deferred / immediate
	if idx < digraphPrefix(tier) {
		n, code := 3, idx
		if idx >= 512 {
			n, code = 4, idx-512
			if tier != "thorough" {
				// spread the slice over the 65536 graphs
				code = (code * 16) + (code % 16)
			}
		}
		return digraphCase(n, code, tape)
	}
	c := &graphCase{Kind: "sequence"}
	if tape.Choose(StCfg, 5) == 0 {
		c.Kind = "sequence-concurrent"
		c.Readers = 1 + tape.Choose(StCfg, 2)
	}
	c.Pool = 3 + tape.Choose(StCfg, 4) // 3..6
	if tape.Choose(StCfg, 8) == 0 {
		c.Pool = 6 + tape.Choose(StCfg, 7) // up to 12
	}
	nops := 1 + tape.Choose(StOps, 10)
	if tape.Choose(StOps, 6) == 0 {
		nops += tape.Choose(StOps, 30)
	}
	drawDeps := func() []int {
		k := tape.Choose(StOps, 4)
		var d []int
		for i := 0; i < k; i++ {
			d = append(d, tape.Choose(StOps, c.Pool))
		}
		return d
	}
	for i := 0; i < nops; i++ {
		switch tape.Choose(StOps, 12) {
		case 0, 1, 2, 3, 4:
			c.Ops = append(c.Ops, gOp{Kind: gAddImm, V: tape.Choose(StOps, c.Pool), Deps: drawDeps()})
		case 5, 6, 7:
			if c.Readers > 0 {
				// concurrent readers must not observe the window between a deferred add and
				// its cycle check (the property makes the check part of the operation)
				c.Ops = append(c.Ops, gOp{Kind: gAddImm, V: tape.Choose(StOps, c.Pool), Deps: drawDeps()})
				continue
			}
			b := gOp{Kind: gAddDeferredBatch}
			nb := 1 + tape.Choose(StOps, 4)
			for j := 0; j < nb; j++ {
				if j > 0 && tape.Choose(StOps, 5) == 0 {
					// a removal before the cycle check has completed the deferred adds
					b.Batch = append(b.Batch, gOp{Kind: gRemove, V: tape.Choose(StOps, c.Pool)})
					continue
				}
				b.Batch = append(b.Batch, gOp{V: tape.Choose(StOps, c.Pool), Deps: drawDeps()})
			}
			c.Ops = append(c.Ops, b)
		case 8, 9:
			c.Ops = append(c.Ops, gOp{Kind: gRemove, V: tape.Choose(StOps, c.Pool)})
		case 10:
			c.Ops = append(c.Ops, gOp{Kind: gClear})
		default:
			c.Ops = append(c.Ops, gOp{Kind: gQueryAgain})
		}
	}
	return c
}

// digraphCase: adjacency matrix code over n nodes (bit i*n+j = edge i->j).
func digraphCase(n, code int, tape *Tape) *graphCase {
	c := &graphCase{Kind: fmt.Sprintf("digraph-%d/%d", n, code), Pool: n}
	var adds []gOp
	for i := 0; i < n; i++ {
		var deps []int
		for j := 0; j < n; j++ {
			if code&(1<<(i*n+j)) != 0 {
				deps = append(deps, j)
			}
		}
		adds = append(adds, gOp{V: i, Deps: deps})
	}
	// insertion order permuted by the tape
	for i := len(adds) - 1; i > 0; i-- {
		j := tape.Choose(StOps, i+1)
		adds[i], adds[j] = adds[j], adds[i]
	}
	if tape.Choose(StOps, 2) == 0 {
		c.Ops = []gOp{{Kind: gAddDeferredBatch, Batch: adds}}
	} else {
		for _, a := range adds {
			c.Ops = append(c.Ops, gOp{Kind: gAddImm, V: a.V, Deps: a.Deps})
		}
	}
	return c
}

func (e *graphEngine) Run(prop, tier string, idx int, tape *Tape) *RunOut {
	c := decodeGraphCase(tier, idx, tape)
	return e.exec(c, tape)
}

func (e *graphEngine) exec(c *graphCase, tape *Tape) *RunOut {
	out := &RunOut{Faults: map[string]int{}, Reach: map[string]int{}}
	var vs []Violation
	sim := simrt.New(simrt.Config{Draw: func(stream, n int) int { return tape.Choose(StSched+stream, n) }})
	var shared *simgraph.Graph
	var sharedReady, writerDone bool
	if c.Readers > 0 {
		shared = simgraph.New()
		sharedReady = true
	}
	sim.AddClient("graph", nil, func(t *simrt.Task) {
		vs = runGraphCaseOn(c, out, shared)
		writerDone = true
	})
	for r := 0; r < c.Readers; r++ {
		sim.AddClient(fmt.Sprintf("reader%d", r), nil, func(t *simrt.Task) {
			for i := 0; i < 40 && sharedReady && !writerDone; i++ {
				simrt.BeginOp()
				shared.TopologicalSort()
				shared.GetRoots()
				shared.Size()
				k := gPool[i%c.Pool]
				shared.GetDependents(k.T.RT(), k.Key, k.Group)
				shared.GetTransitiveDependencies(k.T.RT(), k.Key, k.Group)
			}
		})
	}
	v := sim.Run()
	for _, t := range sim.Tasks() {
		if t.Panic != nil {
			if te, ok := t.Panic.(troubleErr); ok {
				panic(te)
			}
			vs = append(vs, Violation{Prop: "C19", Rule: "C19.panic", Shape: "panic", Msg: fmt.Sprintf("graph operation panicked: %v\n%s", t.Panic, stackHead(string(t.Stack)))})
		}
	}
	if v.Stuck {
		vs = append(vs, Violation{Prop: "C19", Rule: "C19.stuck", Shape: "stuck", Msg: "graph task could make no progress"})
	}
	out.Violations = vs
	out.Steps = sim.Steps()
	out.SchedHash = sim.Hash()
	out.Describe = c.Describe()
	out.CaseHash = hashStr(fmt.Sprint(out.Describe["ops"]))
	out.NonTrivial = len(c.Ops) > 0
	out.Reach["sim.map_perms"] += sim.MapPerms
	out.Class = c.Kind[:strings.IndexAny(c.Kind+"-", "-")]
	return out
}

func runGraphCase(c *graphCase, out *RunOut) []Violation { return runGraphCaseOn(c, out, nil) }

// runGraphCaseOn runs the mutation/query sequence; g0 != nil is a graph shared
// with concurrent reader tasks (then CalculateDepths / DetectCycles, which write
// node fields, are still only called from this task).
func runGraphCaseOn(c *graphCase, out *RunOut, g0 *simgraph.Graph) []Violation {
	var vs []Violation
	add := func(prop, rule, shape, f string, a ...any) {
		vs = append(vs, Violation{Prop: prop, Rule: rule, Shape: shape, Msg: fmt.Sprintf(f, a...)})
	}
	g := g0
	if g == nil {
		g = simgraph.New()
	}
	ref := newRef()
	idxOf := map[simgraph.NodeKey]int{}
	for i := 0; i < c.Pool; i++ {
		idxOf[gPool[i].NK()] = i
	}
	name := func(nk simgraph.NodeKey) string {
		if i, ok := idxOf[nk]; ok {
			return gPool[i].String()
		}
		return "<unknown " + nk.String() + ">"
	}
	queries := func(when string) {
		// size & membership
		if g.Size() != len(ref.nodes) {
			add("C19", "C19.size", "size", "%s: Size()=%d, reference has %d nodes", when, g.Size(), len(ref.nodes))
		}
		for i := 0; i < c.Pool; i++ {
			k := gPool[i]
			_, want := ref.nodes[i]
			if g.HasNode(k.T.RT(), k.Key, k.Group) != want {
				add("C19", "C19.member", "hasnode", "%s: HasNode(%s)=%v, reference says %v", when, k, !want, want)
			}
			if (g.GetNode(k.T.RT(), k.Key, k.Group) != nil) != want {
				add("C19", "C19.member", "getnode", "%s: GetNode(%s) presence != reference (%v)", when, k, want)
			}
			if !want {
				continue
			}
			// direct dependencies: sequence
			got := g.GetDependencies(k.T.RT(), k.Key, k.Group)
			wantDeps := ref.nodes[i].deps
			okSeq := len(got) == len(wantDeps)
			if okSeq {
				for j := range got {
					if idxOf[got[j]] != wantDeps[j] {
						okSeq = false
					}
				}
			}
			if !okSeq {
				var gs []string
				for _, x := range got {
					gs = append(gs, name(x))
				}
				add("C19", "C19.deps", "dependencies", "%s: GetDependencies(%s)=%v, reference %s", when, k, gs, depNames(wantDeps))
			}
			// dependents: multiset
			gd := g.GetDependents(k.T.RT(), k.Key, k.Group)
			wantCnt := map[int]int{}
			for v, n := range ref.nodes {
				for _, d := range n.deps {
					if d == i {
						wantCnt[v]++
					}
				}
			}
			gotCnt := map[int]int{}
			for _, x := range gd {
				gotCnt[idxOf[x]]++
			}
			if !reflect.DeepEqual(gotCnt, wantCnt) && !(len(gotCnt) == 0 && len(wantCnt) == 0) {
				add("C19", "C19.dependents", "dependents", "%s: GetDependents(%s)=%v, reference %v (node index -> multiplicity)", when, k, gotCnt, wantCnt)
			}
			// transitive
			gt := g.GetTransitiveDependencies(k.T.RT(), k.Key, k.Group)
			gotSet := map[int]bool{}
			for _, x := range gt {
				gotSet[idxOf[x]] = true
			}
			wantSet := ref.trans(i)
			delete(wantSet, i) // a node on a cycle reaches itself; whether it lists itself is not prescribed
			delete(gotSet, i)
			if !reflect.DeepEqual(gotSet, wantSet) && !(len(gotSet) == 0 && len(wantSet) == 0) {
				add("C19", "C19.transitive", "transitive", "%s: GetTransitiveDependencies(%s)=%v, reference %v", when, k, keysB(gotSet), keysB(wantSet))
			}
		}
		// roots (in-degree 0) / leaves (out-degree 0)
		indeg := map[int]int{}
		for _, n := range ref.nodes {
			for _, d := range n.deps {
				indeg[d]++
			}
		}
		wantRoots, wantLeaves := map[int]bool{}, map[int]bool{}
		for v, n := range ref.nodes {
			if indeg[v] == 0 {
				wantRoots[v] = true
			}
			if len(n.deps) == 0 {
				wantLeaves[v] = true
			}
		}
		gotRoots, gotLeaves := map[int]bool{}, map[int]bool{}
		for _, n := range g.GetRoots() {
			gotRoots[idxOf[n.Key]] = true
		}
		for _, n := range g.GetLeaves() {
			gotLeaves[idxOf[n.Key]] = true
		}
		if !sameSet(gotRoots, wantRoots) {
			add("C19", "C19.roots", "roots", "%s: GetRoots()=%v, reference (in-degree 0) %v", when, keysB(gotRoots), keysB(wantRoots))
		}
		if !sameSet(gotLeaves, wantLeaves) {
			add("C19", "C19.leaves", "leaves", "%s: GetLeaves()=%v, reference (out-degree 0) %v", when, keysB(gotLeaves), keysB(wantLeaves))
		}
		// acyclicity
		cyc := ref.cyclic()
		err := g.DetectCycles()
		if (err != nil) != cyc {
			add("C19", "C19.acyclic", "detect", "%s: DetectCycles()=%v, reference cyclic=%v", when, err, cyc)
			add("C05", "C05.graph.verdict", "detect", "%s: DetectCycles()=%v, reference cyclic=%v", when, err, cyc)
		}
		if g.IsAcyclic() == cyc {
			add("C19", "C19.acyclic", "isacyclic", "%s: IsAcyclic()=%v, reference cyclic=%v", when, !cyc, cyc)
		}
		if err != nil && cyc {
			checkGraphPath(err, ref, idxOf, when, add)
		}
		if !cyc {
			for rep := 0; rep < 2; rep++ {
				sorted, terr := g.TopologicalSort()
				if terr != nil {
					add("C19", "C19.topo", "error", "%s: TopologicalSort() failed on an acyclic graph: %v", when, terr)
					add("C06", "C06.topo", "error", "%s: TopologicalSort() failed on an acyclic graph: %v", when, terr)
					break
				}
				pos := map[int]int{}
				bad := ""
				for p, n := range sorted {
					i, ok := idxOf[n.Key]
					if !ok {
						bad = "unknown node " + n.Key.String()
					}
					if _, dup := pos[i]; dup {
						bad = "node listed twice: " + gPool[i].String()
					}
					pos[i] = p
				}
				if len(sorted) != len(ref.nodes) && bad == "" {
					bad = fmt.Sprintf("%d nodes listed, graph has %d", len(sorted), len(ref.nodes))
				}
				if bad == "" {
					for v, n := range ref.nodes {
						if _, ok := pos[v]; !ok {
							bad = "missing node " + gPool[v].String()
						}
						for _, d := range n.deps {
							if pos[d] >= pos[v] && d != v {
								bad = fmt.Sprintf("%s listed before its dependency %s", gPool[v], gPool[d])
							}
						}
					}
				}
				if bad != "" {
					shape := "order"
					if rep == 1 {
						shape = "order/cached"
					}
					add("C19", "C19.topo", shape, "%s: TopologicalSort(): %s", when, bad)
					add("C06", "C06.topo", shape, "%s: TopologicalSort(): %s", when, bad)
					break
				}
			}
			g.CalculateDepths()
			memo := map[int]int{}
			for v := range ref.nodes {
				k := gPool[v]
				n := g.GetNode(k.T.RT(), k.Key, k.Group)
				if n != nil && n.Depth != ref.depth(v, memo) {
					add("C19", "C19.depth", "depth", "%s: depth(%s)=%d, reference (longest dependency chain) %d", when, k, n.Depth, ref.depth(v, memo))
				}
			}
		}
	}
	for step, op := range c.Ops {
		when := fmt.Sprintf("after step %d %s", step, op)
		switch op.Kind {
		case gAddImm:
			trial := ref.clone()
			trial.add(op.V, op.Deps)
			wantErr := trial.cyclic()
			err := g.AddProvider(mkProvider(gPool[op.V], op.Deps))
			var ce *simgraph.CycleError
			if (err != nil) != wantErr {
				add("C19", "C19.add", "verdict", "step %d %s returned %v; reference says cycle=%v", step, op, firstLine(err), wantErr)
				add("C05", "C05.graph.verdict", "add", "step %d %s returned %v; reference says cycle=%v", step, op, firstLine(err), wantErr)
				return vs
			}
			if err != nil {
				if !errors.As(err, &ce) {
					add("C19", "C19.add", "error-class", "step %d %s: rejection is not a CircularDependencyError: %v", step, op, err)
				} else {
					checkGraphPath(err, trial, idxOf, when, add)
				}
				out.Reach["graph.rejected_add"]++
				// rollback: state must equal the state before
				before := len(vs)
				queries(when + " (rejected)")
				for i := before; i < len(vs); i++ {
					if vs[i].Prop == "C19" {
						vs[i].Rule = "C19.rollback"
						vs[i].Shape = "rollback/" + vs[i].Shape
					}
				}
			} else {
				ref = trial
				queries(when)
			}
		case gAddDeferredBatch:
			for _, b := range op.Batch {
				if b.Kind == gRemove {
					k := gPool[b.V]
					g.RemoveProvider(k.T.RT(), k.Key, k.Group)
					ref.remove(b.V)
					out.Reach["graph.remove_in_deferred_window"]++
					continue
				}
				if err := g.AddProviderDeferred(mkProvider(gPool[b.V], b.Deps)); err != nil {
					add("C19", "C19.add", "deferred-error", "step %d: AddProviderDeferred(%s) returned %v", step, gPool[b.V], err)
				}
				ref.add(b.V, b.Deps)
			}
			err := g.DetectCycles()
			cyc := ref.cyclic()
			out.Reach["graph.deferred_batches"]++
			if (err != nil) != cyc {
				add("C19", "C19.acyclic", "deferred", "step %d %s: DetectCycles()=%v, reference cyclic=%v", step, op, firstLine(err), cyc)
				add("C05", "C05.graph.verdict", "deferred", "step %d %s: DetectCycles()=%v, reference cyclic=%v", step, op, firstLine(err), cyc)
				return vs
			}
			if cyc {
				out.Reach["graph.cyclic_batches"]++
				checkGraphPath(err, ref, idxOf, when, add)
				// second call (served from the cycle cache) must agree
				if err2 := g.DetectCycles(); err2 == nil {
					add("C19", "C19.stale", "cycle-cache", "step %d: second DetectCycles() on a cyclic graph returned nil", step)
					add("C05", "C05.graph.verdict", "cycle-cache", "step %d: second DetectCycles() on a cyclic graph returned nil", step)
				} else {
					checkGraphPath(err2, ref, idxOf, when+" (cached)", add)
				}
				// the deferred adds were completed by the cycle check: every query that is
				// meaningful on a cyclic graph must already agree with the reference
				queries(when + " (cyclic state)")
				if len(vs) > 0 {
					return vs
				}
				if (step+len(op.Batch))%2 == 0 {
					// repair by removal instead of Clear: take nodes out (pool order, rotated by the
					// step) until the reference is acyclic; the verdict and every other answer must
					// follow each removal (a cached "cyclic" verdict must not survive the removal of
					// another member of the cycle)
					for i := 0; i < len(gPool) && ref.cyclic(); i++ {
						v := (i + step) % len(gPool)
						if ref.nodes[v] == nil {
							continue
						}
						k := gPool[v]
						g.RemoveProvider(k.T.RT(), k.Key, k.Group)
						ref.remove(v)
						out.Reach["graph.remove_in_cyclic_state"]++
						queries(fmt.Sprintf("%s then RemoveProvider(%s)", when, k))
						if len(vs) > 0 {
							return vs
						}
					}
					if !ref.cyclic() {
						continue
					}
				}
				g.Clear()
				ref = newRef()
				queries(when + " then Clear")
			} else {
				queries(when)
			}
		case gRemove:
			k := gPool[op.V]
			g.RemoveProvider(k.T.RT(), k.Key, k.Group)
			ref.remove(op.V)
			queries(when)
		case gClear:
			g.Clear()
			ref = newRef()
			queries(when)
		case gQueryAgain:
			queries(when)
		}
		if len(vs) > 0 {
			return vs
		}
	}
	return vs
}

func sameSet(a, b map[int]bool) bool {
	if len(a) != len(b) {
		return false
	}
	for k := range a {
		if !b[k] {
			return false
		}
	}
	return true
}

func keysB(m map[int]bool) []string {
	var ks []int
	for k := range m {
		ks = append(ks, k)
	}
	sort.Ints(ks)
	var out []string
	for _, k := range ks {
		if k >= 0 && k < len(gPool) {
			out = append(out, gPool[k].String())
		} else {
			out = append(out, fmt.Sprint(k))
		}
	}
	return out
}

// checkGraphPath: the reported path is non-empty, every consecutive pair is
// an edge of the reference digraph, and it closes.
func checkGraphPath(err error, ref *refGraph, idxOf map[simgraph.NodeKey]int, when string, add func(prop, rule, shape, f string, a ...any)) {
	var ce *simgraph.CycleError
	var cev simgraph.CycleError
	if !errors.As(err, &ce) {
		if errors.As(err, &cev) {
			ce = &cev
		} else {
			return
		}
	}
	var names []string
	var p []int
	for _, nk := range ce.Path {
		i, ok := idxOf[nk]
		if !ok {
			add("C05", "C05.graph.path", "unknown-node", "%s: cycle path contains unknown node %v", when, nk)
			add("C19", "C19.path", "unknown-node", "%s: cycle path contains unknown node %v", when, nk)
			return
		}
		p = append(p, i)
		names = append(names, gPool[i].String())
	}
	bad := ""
	if len(p) == 0 {
		bad = "empty path"
	}
	for i := 0; i+1 < len(p) && bad == ""; i++ {
		if !ref.hasEdge(p[i], p[i+1]) {
			bad = fmt.Sprintf("%s -> %s is not an edge", gPool[p[i]], gPool[p[i+1]])
		}
	}
	if bad == "" && len(p) > 0 {
		first, last := p[0], p[len(p)-1]
		if !(first == last && len(p) > 1) && !ref.hasEdge(last, first) {
			bad = fmt.Sprintf("path does not close: %s -> %s is not an edge", gPool[last], gPool[first])
		}
	}
	if bad != "" {
		add("C05", "C05.graph.path", "not-a-cycle", "%s: reported cycle path %v is not a cycle of the graph: %s", when, names, bad)
		add("C19", "C19.path", "not-a-cycle", "%s: reported cycle path %v is not a cycle of the graph: %s", when, names, bad)
	}
}

// ---------------------------------------------------------------------------

func (e *graphEngine) runTapes(tier string, idx int, tapes [nStreams][]int32) (*RunOut, *graphCase) {
	tape := ReplayTape(tapes)
	c := decodeGraphCase(tier, idx, tape)
	return e.exec(c, tape), c
}

func (e *graphEngine) Replay(rf *ReplayFile) *RunOut {
	out, _ := e.runTapes(rf.Tier, rf.Run, mapToTapes(rf.Tapes))
	return out
}

func (e *graphEngine) Minimise(prop, tier string, idx int, tapes [nStreams][]int32, v Violation) *ReplayFile {
	deadline := time.Now().Add(20 * time.Second)
	try := func(t [nStreams][]int32) (ok bool) {
		defer func() {
			if r := recover(); r != nil {
				ok = false
			}
		}()
		out, _ := e.runTapes(tier, idx, t)
		return hasViolation(out, v) != nil
	}
	cur := tapes
	minimised := false
	if idx >= digraphPrefix(tier) && try(cur) {
		cur = shrinkTapes(cur, try, deadline)
		minimised = true
	}
	out, c := e.runTapes(tier, idx, cur)
	vv := hasViolation(out, v)
	if vv == nil {
		cur = tapes
		out, c = e.runTapes(tier, idx, cur)
		vv = hasViolation(out, v)
		if vv == nil {
			vv = &v
		}
	}
	return &ReplayFile{Property: prop, Rule: vv.Rule, Shape: vv.Shape, Message: vv.Msg, Engine: e.Name(),
		Tapes: tapesToMap(cur), Case: c.Describe(), Digest: "", All: out.Violations, Minimised: minimised}
}
