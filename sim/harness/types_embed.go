package main

import "reflect"

// Method-less pool types E0..E2. reflect.StructOf can embed a pointer to a
// type without methods at any field position, so parameter objects that embed
// a service next to godi.In (struct{ godi.In; *E0; F1 *T1 }) can be
// synthesised for them. They carry their ledger entry in a named field.
const NE = 3

type E0 struct{ X Inst }
type E1 struct{ X Inst }
type E2 struct{ X Inst }

func embedRef(k int) TypeRef { return TypeRef(NT + ND + NI + k) }

// IsEmbeddable: one of the method-less types.
func (t TypeRef) IsEmbeddable() bool { return int(t) >= NT+ND+NI && int(t) < NT+ND+NI+NE }

// voidRef: the type under which godi files constructors without a service result.
func voidRef() TypeRef { return TypeRef(NT + ND + NI + NE) }

func init() {
	poolTypes = append(poolTypes, reflect.TypeOf((*E0)(nil)), reflect.TypeOf((*E1)(nil)), reflect.TypeOf((*E2)(nil)), reflect.TypeOf(struct{}{}))
	poolNames = append(poolNames, "*E0", "*E1", "*E2", "struct{}")
}

// asInst: the ledger entry behind a service value handed out by the container.
//
//go:norace
func asInst(v any) (*Inst, bool) {
	switch x := v.(type) {
	case inster:
		return x.inst(), true
	case *E0:
		if x != nil {
			return &x.X, true
		}
	case *E1:
		if x != nil {
			return &x.X, true
		}
	case *E2:
		if x != nil {
			return &x.X, true
		}
	}
	return nil, false
}
