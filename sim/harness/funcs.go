package main

import "reflect"

// Function-value kinds other than reflect.MakeFunc (C04: "closures, method
// values ... that share code"). Applicable to registrations of the simplest
// shape: func() *T with no dependencies. All closures made by one instantiation
// of makeClosure share a code pointer and a type, and so do all method values of
// one instantiation of methodRecv - exactly the situation in which an analysis
// cache keyed by code pointer would confuse two registrations.

const (
	KMakeFunc = 0
	KClosure  = 1
	KMethod   = 2
)

var funcKindNames = []string{"reflect.MakeFunc", "closure", "method value"}

type ctorFactory struct {
	closure func(h *H, r *Reg) any
	method  func(h *H, r *Reg) any
}

type poolPtr[T any] interface {
	*T
	inster
}

//go:noinline
func makeClosure[T any, PT poolPtr[T]](h *H, r *Reg) func() PT {
	return func() PT {
		v := h.staticCtor(r, func() inster { return PT(new(T)) })
		if v == nil {
			return nil
		}
		return v.(PT)
	}
}

type methodRecv[T any, PT poolPtr[T]] struct {
	h *H
	r *Reg
}

func (m *methodRecv[T, PT]) New() PT {
	v := m.h.staticCtor(m.r, func() inster { return PT(new(T)) })
	if v == nil {
		return nil
	}
	return v.(PT)
}

func mkFactory[T any, PT poolPtr[T]]() ctorFactory {
	return ctorFactory{
		closure: func(h *H, r *Reg) any { return makeClosure[T, PT](h, r) },
		method:  func(h *H, r *Reg) any { m := &methodRecv[T, PT]{h, r}; return m.New },
	}
}

var factories = map[reflect.Type]ctorFactory{
	reflect.TypeOf((*T0)(nil)): mkFactory[T0, *T0](), reflect.TypeOf((*T1)(nil)): mkFactory[T1, *T1](),
	reflect.TypeOf((*T2)(nil)): mkFactory[T2, *T2](), reflect.TypeOf((*T3)(nil)): mkFactory[T3, *T3](),
	reflect.TypeOf((*T4)(nil)): mkFactory[T4, *T4](), reflect.TypeOf((*T5)(nil)): mkFactory[T5, *T5](),
	reflect.TypeOf((*T6)(nil)): mkFactory[T6, *T6](), reflect.TypeOf((*T7)(nil)): mkFactory[T7, *T7](),
	reflect.TypeOf((*D0)(nil)): mkFactory[D0, *D0](), reflect.TypeOf((*D1)(nil)): mkFactory[D1, *D1](),
	reflect.TypeOf((*D2)(nil)): mkFactory[D2, *D2](), reflect.TypeOf((*D3)(nil)): mkFactory[D3, *D3](),
	reflect.TypeOf((*D4)(nil)): mkFactory[D4, *D4](), reflect.TypeOf((*D5)(nil)): mkFactory[D5, *D5](),
	reflect.TypeOf((*D6)(nil)): mkFactory[D6, *D6](), reflect.TypeOf((*D7)(nil)): mkFactory[D7, *D7](),
	reflect.TypeOf((*D8)(nil)): mkFactory[D8, *D8](), reflect.TypeOf((*D9)(nil)): mkFactory[D9, *D9](),
}

func staticKindApplicable(r *Reg) bool {
	if r.Form != FSingle || len(r.Deps) != 0 || r.ParamObj || len(r.Outs) != 1 || r.Outs[0].T.IsIface() {
		return false
	}
	_, ok := factories[r.Outs[0].T.RT()]
	return ok
}

// staticCtor is the constructor body for the static kinds: same bookkeeping as
// ctorBody for a dependency-free single-output registration.
//
//go:norace
func (h *H) staticCtor(r *Reg, alloc func() inster) inster {
	inv := h.enterInv(r)
	f := h.faultFor(FCtorErr, FCtorNil, r.ID, inv.N)
	if f != nil {
		inv.Fault = f
		switch f.Kind {
		case FCtorNil:
			inv.Outcome = OutNil
			inv.ExitSeq = h.event(EvCtorExit, inv.ID, -1)
			return nil
		default:
			inv.Outcome = OutPanic
			if f.Kind == FCtorErr {
				f.PanicVal = error(f.Err)
			}
			inv.ExitSeq = h.event(EvCtorExit, inv.ID, -1)
			panic(f.PanicVal)
		}
	}
	v := alloc()
	h.adoptOut(r, 0, inv, v.inst())
	h.exitInv(inv)
	return v
}
