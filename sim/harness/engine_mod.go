package main

import (
	"fmt"
	"reflect"
	"strings"

	"github.com/junioryono/godi/v4"
	"github.com/junioryono/godi/v4/simrt"
)

// modEngine (C20): a module tree applied with AddModules (twin A) against the
// same calls issued directly, left to right, stopping at the first error
// (twin B). Inputs with a failure position; no scheduling dimension, but run
// inside a simulated task so that Build sees simulator-chosen map orders.
type modEngine struct{}

func (e *modEngine) Name() string { return "module-sim" }

const (
	mModule = iota
	mAdd
	mRemove
	mRemoveKeyed
	mNil
)

type mNode struct {
	// Shared > 0: every module node with the same Shared id is built from one and
	// the same []ModuleOption value (the caller reuses an options slice, spread
	// with ...), instead of a fresh slice per NewModule call
	Shared   int
	Kind     int
	Name     string
	Children []*mNode
	Reg      *Reg
	Id       Ident
	Bad      string // why this Add must fail ("" = expected to be judged by the registry)
}

func (n *mNode) String() string {
	switch n.Kind {
	case mModule:
		var s []string
		for _, c := range n.Children {
			s = append(s, c.String())
		}
		if n.Shared > 0 {
			return fmt.Sprintf("Module(%q){shared-slice#%d: %s}", n.Name, n.Shared, strings.Join(s, "; "))
		}
		return fmt.Sprintf("Module(%q){%s}", n.Name, strings.Join(s, "; "))
	case mAdd:
		if n.Bad != "" {
			return "Add!" + n.Bad + "(" + n.Reg.String() + ")"
		}
		return "Add(" + n.Reg.String() + ")"
	case mRemove:
		return "Remove[" + n.Id.T.String() + "]"
	case mRemoveKeyed:
		return fmt.Sprintf("RemoveKeyed[%s](%s)", n.Id.T, n.Id.Key)
	}
	return "nil"
}

type modCase struct {
	Roots []*mNode
}

func (c *modCase) Describe() map[string]any {
	var s []string
	for _, r := range c.Roots {
		s = append(s, r.String())
	}
	return map[string]any{"engine": "module-sim", "AddModules": s}
}

var removeMods = map[TypeRef]godi.ModuleOption{
	0: godi.Remove[*T0](), 1: godi.Remove[*T1](), 2: godi.Remove[*T2](), 3: godi.Remove[*T3](),
	TypeRef(NT): godi.Remove[*D0](), TypeRef(NT + 1): godi.Remove[*D1](), TypeRef(NT + 2): godi.Remove[*D2](), TypeRef(NT + 3): godi.Remove[*D3](),
	TypeRef(NT + ND): godi.Remove[I0](), TypeRef(NT + ND + 1): godi.Remove[I1](),
}

func removeKeyedMod(t TypeRef, key any) godi.ModuleOption {
	switch t {
	case 0:
		return godi.RemoveKeyed[*T0](key)
	case 1:
		return godi.RemoveKeyed[*T1](key)
	case 2:
		return godi.RemoveKeyed[*T2](key)
	case 3:
		return godi.RemoveKeyed[*T3](key)
	case TypeRef(NT):
		return godi.RemoveKeyed[*D0](key)
	case TypeRef(NT + 1):
		return godi.RemoveKeyed[*D1](key)
	case TypeRef(NT + 2):
		return godi.RemoveKeyed[*D2](key)
	case TypeRef(NT + ND):
		return godi.RemoveKeyed[I0](key)
	case TypeRef(NT + ND + 1):
		return godi.RemoveKeyed[I1](key)
	default:
		return godi.RemoveKeyed[*D3](key)
	}
}

func decodeModCase(tier string, idx int, tape *Tape) *modCase {
	c := &modCase{}
	nregs := 0
	types := 4
	pickT := func() TypeRef {
		if tape.Choose(StCfg, 2) == 0 {
			return TypeRef(tape.Choose(StCfg, types))
		}
		return TypeRef(NT + tape.Choose(StCfg, types))
	}
	pickRemovable := func() TypeRef {
		if tape.Choose(StOps, 3) == 0 {
			return ifaceRef(tape.Choose(StOps, 2))
		}
		return pickT()
	}
	newReg := func() *Reg {
		r := &Reg{ID: nregs}
		nregs++
		r.Life = tape.Choose(StCfg, 3)
		r.Form = FSingle
		switch tape.Choose(StCfg, 8) {
		case 0:
			r.Form = FMulti
		case 1:
			r.Form = FResult
		case 2:
			r.Form = FInstance
			r.Life = LSingleton
		}
		n := 1
		if r.Form == FMulti {
			n = 2
		} else if r.Form == FResult {
			n = 1 + tape.Choose(StCfg, 2)
		}
		used := map[TypeRef]bool{}
		for j := 0; j < n; j++ {
			t := pickT()
			for k := 0; used[t] && k < 8; k++ {
				t = pickT()
			}
			used[t] = true
			o := Out{T: t, Concrete: t}
			if r.Form == FResult && tape.Choose(StCfg, 3) == 0 {
				o.Key = keyPool[tape.Choose(StCfg, 2)]
			}
			r.Outs = append(r.Outs, o)
		}
		if r.Form == FSingle || r.Form == FInstance {
			switch tape.Choose(StCfg, 5) {
			case 0, 1:
				r.Name = keyPool[tape.Choose(StCfg, 2)]
			case 2:
				r.Group = groupPool[tape.Choose(StCfg, 2)]
			}
			if tape.Choose(StCfg, 3) == 0 {
				r.As = []int{tape.Choose(StCfg, 2)}
			}
		}
		// dependencies on pool types (may be missing: Build then fails in both twins alike)
		if r.Form != FInstance && tape.Choose(StCfg, 4) == 0 {
			r.Deps = append(r.Deps, Dep{T: pickT()})
		}
		return r
	}
	budget := 2 + tape.Choose(StOps, 10)
	var build func(depth int) *mNode
	build = func(depth int) *mNode {
		budget--
		k := tape.Choose(StOps, 12)
		switch {
		case k < 3 && depth < 4:
			n := &mNode{Kind: mModule, Name: fmt.Sprintf("m%d", tape.Choose(StOps, 4))}
			nc := tape.Choose(StOps, 5)
			for i := 0; i < nc && budget > 0; i++ {
				n.Children = append(n.Children, build(depth+1))
			}
			return n
		case k < 8:
			return &mNode{Kind: mAdd, Reg: newReg()}
		case k == 8:
			n := &mNode{Kind: mAdd, Reg: newReg()}
			switch tape.Choose(StOps, 3) {
			case 0:
				n.Bad = "nil-constructor"
			case 1:
				if n.Reg.Form == FSingle {
					n.Reg.Name, n.Reg.Group = "k0", "g0"
					n.Bad = "name+group"
				}
			default:
				n.Bad = "reserved-type"
			}
			return n
		case k == 9:
			return &mNode{Kind: mRemove, Id: Ident{T: pickRemovable()}}
		case k == 10:
			return &mNode{Kind: mRemoveKeyed, Id: Ident{T: pickRemovable(), Key: keyPool[tape.Choose(StOps, 2)]}}
		default:
			return &mNode{Kind: mNil}
		}
	}
	if tape.Choose(StOps, 8) == 0 {
		// reuse template: one options list (with nil entries) used for two sibling modules,
		// with Remove entries for everything it adds in between
		var kids []*mNode
		nk := 2 + tape.Choose(StOps, 3)
		for i := 0; i < nk; i++ {
			if tape.Choose(StOps, 3) == 0 {
				kids = append(kids, &mNode{Kind: mNil})
			}
			r := newReg()
			r.Form, r.Name, r.Group, r.As, r.Deps = FSingle, "", "", nil, nil
			r.Outs = r.Outs[:1]
			r.Outs[0].T = r.Outs[0].Concrete
			r.Outs[0].Key, r.Outs[0].Group = "", ""
			kids = append(kids, &mNode{Kind: mAdd, Reg: r})
		}
		first := &mNode{Kind: mModule, Name: "first", Children: kids, Shared: 1}
		second := &mNode{Kind: mModule, Name: "second", Children: kids, Shared: 1}
		root := &mNode{Kind: mModule, Name: "root", Children: []*mNode{first}}
		for _, k := range kids {
			if k.Kind == mAdd {
				root.Children = append(root.Children, &mNode{Kind: mRemove, Id: Ident{T: k.Reg.Outs[0].T}})
			}
		}
		root.Children = append(root.Children, second)
		c.Roots = append(c.Roots, root)
	}
	nroots := 1 + tape.Choose(StOps, 3)
	for i := 0; i < nroots && budget > 0; i++ {
		c.Roots = append(c.Roots, build(0))
	}
	return c
}

func (e *modEngine) Run(prop, tier string, idx int, tape *Tape) *RunOut {
	c := decodeModCase(tier, idx, tape)
	return e.exec(c, tape)
}

func (e *modEngine) exec(c *modCase, tape *Tape) *RunOut {
	out := &RunOut{Faults: map[string]int{}, Reach: map[string]int{}}
	var vs []Violation
	godi.SimResetCounters()
	sim := simrt.New(simrt.Config{Draw: func(stream, n int) int { return tape.Choose(StSched+stream, n) }})
	sim.AddClient("modules", nil, func(t *simrt.Task) {
		vs = runModCase(c, tape, out)
	})
	v := sim.Run()
	for _, t := range sim.Tasks() {
		if t.Panic != nil {
			if te, ok := t.Panic.(troubleErr); ok {
				panic(te)
			}
			vs = append(vs, Violation{Prop: "C20", Rule: "C20.panic", Shape: "panic", Msg: fmt.Sprintf("module application panicked: %v\n%s", t.Panic, stackHead(string(t.Stack)))})
		}
	}
	if v.Stuck {
		vs = append(vs, Violation{Prop: "C20", Rule: "C20.stuck", Shape: "stuck", Msg: "no progress"})
	}
	out.Violations = vs
	out.Steps = sim.Steps()
	out.SchedHash = sim.Hash()
	out.Describe = c.Describe()
	out.CaseHash = hashStr(fmt.Sprint(out.Describe["AddModules"]))
	out.NonTrivial = true
	return out
}

// reservedCtor: a constructor producing one of the built-in types.
func reservedCtor() any { return func() godi.Provider { return nil } }

type twin struct {
	h    *H
	coll godi.Collection
}

func (tw *twin) addArgs(n *mNode) (any, []godi.AddOption) {
	switch n.Bad {
	case "nil-constructor":
		return nil, nil
	case "reserved-type":
		return reservedCtor(), nil
	}
	return tw.h.makeCtor(n.Reg), tw.h.regOpts(n.Reg)
}

func runModCase(c *modCase, tape *Tape, out *RunOut) []Violation {
	var vs []Violation
	add := func(rule, shape, f string, a ...any) {
		vs = append(vs, Violation{Prop: "C20", Rule: rule, Shape: shape, Msg: fmt.Sprintf(f, a...)})
	}
	cfg := &Config{}
	var collect func(n *mNode)
	collect = func(n *mNode) {
		if n.Reg != nil {
			cfg.Regs = append(cfg.Regs, n.Reg)
		}
		for _, ch := range n.Children {
			collect(ch)
		}
	}
	for _, r := range c.Roots {
		collect(r)
	}
	A := &twin{h: newH(cfg, tape), coll: godi.NewCollection()}
	B := &twin{h: newH(cfg, tape), coll: godi.NewCollection()}

	// twin A: module tree
	sharedKids := map[int][]godi.ModuleOption{}
	var toOpt func(n *mNode) godi.ModuleOption
	toOpt = func(n *mNode) godi.ModuleOption {
		switch n.Kind {
		case mModule:
			if n.Shared > 0 {
				kids, ok := sharedKids[n.Shared]
				if !ok {
					for _, ch := range n.Children {
						kids = append(kids, toOpt(ch))
					}
					sharedKids[n.Shared] = kids
				}
				return godi.NewModule(n.Name, kids...) // the caller's slice, spread
			}
			var kids []godi.ModuleOption
			for _, ch := range n.Children {
				kids = append(kids, toOpt(ch))
			}
			return godi.NewModule(n.Name, kids...)
		case mAdd:
			fn, opts := A.addArgs(n)
			switch n.Reg.Life {
			case LSingleton:
				return godi.AddSingleton(fn, opts...)
			case LScoped:
				return godi.AddScoped(fn, opts...)
			default:
				return godi.AddTransient(fn, opts...)
			}
		case mRemove:
			return removeMods[n.Id.T]
		case mRemoveKeyed:
			return removeKeyedMod(n.Id.T, n.Id.Key)
		}
		return nil
	}
	var mods []godi.ModuleOption
	for _, r := range c.Roots {
		mods = append(mods, toOpt(r))
	}
	errA := A.coll.AddModules(mods...)

	// twin B: flattened direct calls; also records the enclosing module names of the failing entry
	var errB error
	var failPath []string
	var flat func(n *mNode, path []string) bool
	flat = func(n *mNode, path []string) bool {
		switch n.Kind {
		case mModule:
			p := append(append([]string(nil), path...), n.Name)
			for _, ch := range n.Children {
				if !flat(ch, p) {
					return false
				}
			}
		case mAdd:
			fn, opts := B.addArgs(n)
			var err error
			switch n.Reg.Life {
			case LSingleton:
				err = B.coll.AddSingleton(fn, opts...)
			case LScoped:
				err = B.coll.AddScoped(fn, opts...)
			default:
				err = B.coll.AddTransient(fn, opts...)
			}
			if err != nil {
				errB = err
				failPath = path
				return false
			}
		case mRemove:
			B.coll.Remove(n.Id.T.RT())
		case mRemoveKeyed:
			B.coll.RemoveKeyed(n.Id.T.RT(), n.Id.Key)
		}
		return true
	}
	for _, r := range c.Roots {
		if !flat(r, nil) {
			break
		}
	}
	if errB != nil {
		out.Reach["mod.failing_entry"]++
		if len(failPath) > 1 {
			out.Reach["mod.failing_entry_nested"]++
		}
	}

	// C20.equiv on error / nil
	if (errA == nil) != (errB == nil) {
		add("C20.equiv", "error", "AddModules returned %v, the same calls issued directly returned %v", firstLine(errA), firstLine(errB))
		return vs
	}
	// C20.wrap
	if errA != nil {
		var names []string
		cur := errA
		for {
			if me, ok := cur.(godi.ModuleError); ok {
				names = append(names, me.Module)
				cur = me.Cause
				continue
			}
			if me, ok := cur.(*godi.ModuleError); ok && me != nil {
				names = append(names, me.Module)
				cur = me.Cause
				continue
			}
			break
		}
		if !reflect.DeepEqual(names, failPath) && !(len(names) == 0 && len(failPath) == 0) {
			add("C20.wrap", "layers", "failing entry is enclosed by modules %v (outermost first) but the error is wrapped as %v", failPath, names)
		}
		_, ca := classify(errA)
		_, cb := classify(errB)
		for _, x := range cb {
			if !hasClass(ca, x) {
				add("C20.wrap", "cause-class", "direct call failed with class %s (%v); through modules that class is not reachable with errors.Is/As: %v", errClassNames[x], firstLine(errB), firstLine(errA))
			}
		}
		if cur == nil || cur.Error() != errB.Error() {
			add("C20.wrap", "cause", "innermost cause through modules: %v; direct: %v", firstLine(cur), firstLine(errB))
		}
	}
	// C20.equiv on the collections
	da, db := collSnapshot(A.coll), collSnapshot(B.coll)
	if da != db {
		add("C20.equiv", "collection", "collections differ:\n  modules: %s\n  direct:  %s", da, db)
		return vs
	}
	// Build both
	pa, ea := A.coll.Build()
	pb, eb := B.coll.Build()
	_, cla := classify(ea)
	_, clb := classify(eb)
	if (ea == nil) != (eb == nil) || fmt.Sprint(cla) != fmt.Sprint(clb) {
		add("C20.equiv", "build-verdict", "Build verdicts differ: modules %v / direct %v", firstLine(ea), firstLine(eb))
		return vs
	}
	if ea != nil {
		out.Reach["mod.build_failed"]++
		return vs
	}
	out.Reach["mod.build_ok"]++
	for ti := 0; ti < 10; ti++ {
		t := TypeRef(ti)
		if ti >= 4 && ti < 8 {
			t = TypeRef(NT + ti - 4)
		} else if ti >= 8 {
			t = ifaceRef(ti - 8)
		}
		ids := []Ident{{T: t}, {T: t, Key: "k0"}, {T: t, Key: "k1"}}
		for _, id := range ids {
			ra, ia := resolveProducer(pa, id)
			rb, ib := resolveProducer(pb, id)
			if ra != rb {
				add("C20.equiv", "producer", "%s resolves to r%d through modules and to r%d directly (errors: %v / %v)", id, ra, rb, firstLine(ia), firstLine(ib))
			}
		}
		for _, g := range groupPool {
			va, e1 := pa.GetGroup(t.RT(), g)
			vb, e2 := pb.GetGroup(t.RT(), g)
			sa, sb := groupRegs(va), groupRegs(vb)
			if (e1 == nil) != (e2 == nil) || sa != sb {
				add("C20.equiv", "group", "group %s@%s: modules %s (%v), direct %s (%v)", t, g, sa, firstLine(e1), sb, firstLine(e2))
			}
		}
	}
	pa.Close()
	pb.Close()
	return vs
}

func groupRegs(vs []any) string {
	var s []string
	for _, v := range vs {
		if in, ok := v.(inster); ok {
			s = append(s, fmt.Sprintf("r%d.%d", in.inst().Reg, in.inst().OutIdx))
		} else {
			s = append(s, "?")
		}
	}
	return "[" + strings.Join(s, " ") + "]"
}

func resolveProducer(p godi.Provider, id Ident) (int, error) {
	var v any
	var err error
	if id.Key != "" {
		v, err = p.GetKeyed(id.T.RT(), id.Key)
	} else {
		v, err = p.Get(id.T.RT())
	}
	if err != nil {
		c, _ := classify(err)
		return -1 - c, err
	}
	if in, ok := v.(inster); ok {
		return in.inst().Reg, nil
	}
	return -100, nil
}

func collSnapshot(c godi.Collection) string {
	got := map[descKey]int{}
	for _, d := range c.ToSlice() {
		if d == nil {
			continue
		}
		k := descKey{T: d.Type.String(), Group: d.Group, Life: int(d.Lifetime)}
		if d.Key != nil {
			k.Key = fmt.Sprint(d.Key)
		}
		got[k]++
	}
	s := fmt.Sprintf("count=%d %s contains=", c.Count(), fmtDesc(got))
	for ti := 0; ti < 10; ti++ {
		t := TypeRef(ti)
		if ti >= 4 && ti < 8 {
			t = TypeRef(NT + ti - 4)
		} else if ti >= 8 {
			t = ifaceRef(ti - 8)
		}
		b := 0
		if c.Contains(t.RT()) {
			b |= 1
		}
		if c.ContainsKeyed(t.RT(), "k0") {
			b |= 2
		}
		if c.ContainsKeyed(t.RT(), "k1") {
			b |= 4
		}
		s += fmt.Sprint(b)
	}
	return s
}

func (e *modEngine) runTapes(tier string, idx int, tapes [nStreams][]int32) (*RunOut, *modCase) {
	tape := ReplayTape(tapes)
	c := decodeModCase(tier, idx, tape)
	return e.exec(c, tape), c
}

func (e *modEngine) Replay(rf *ReplayFile) *RunOut {
	out, _ := e.runTapes(rf.Tier, rf.Run, mapToTapes(rf.Tapes))
	return out
}

func (e *modEngine) Minimise(prop, tier string, idx int, tapes [nStreams][]int32, v Violation) *ReplayFile {
	return genericMinimise(e.Name(), prop, tapes, v, func(t [nStreams][]int32) (*RunOut, map[string]any) {
		out, c := e.runTapes(tier, idx, t)
		return out, c.Describe()
	})
}
