package main

import (
	"bytes"
	"context"
	"errors"
	"fmt"
	"io"
	"net"
	"net/http"
	"net/http/httptest"
	"reflect"
	"strings"
	"time"

	"github.com/gin-gonic/gin"
	"github.com/gofiber/fiber/v2"
	fiberrecover "github.com/gofiber/fiber/v2/middleware/recover"
	"github.com/junioryono/godi/v4"
	godichi "github.com/junioryono/godi/v4/chi"
	godiecho "github.com/junioryono/godi/v4/echo"
	godifiber "github.com/junioryono/godi/v4/fiber"
	godigin "github.com/junioryono/godi/v4/gin"
	godihttp "github.com/junioryono/godi/v4/http"
	"github.com/junioryono/godi/v4/simrt"
	"github.com/labstack/echo/v4"
)

// webEngine (C16): the five integrations driven through the real frameworks.
// A request is one simulated task that calls ServeHTTP on a recorder (net/http,
// chi, gin, echo) or fasthttp's ServeConn on an in-memory connection (fiber):
// synchronous on the calling task, no sockets. Handlers, middlewares and
// services are harness code (yield points + fault points); request contexts are
// simulator-owned, so "client went away mid-request" is an injectable event.
type webEngine struct{}

func (e *webEngine) Name() string { return "web-sim" }

var frameworks = []string{"net/http", "chi", "gin", "echo", "fiber"}

const (
	exitOK = iota
	exitMwError
	exitHandlerError
	exitHandlerPanic
	exitScopeCreateFail
	exitProviderClosed
	exitClientCancel
	exitResolveFail // the scoped service's constructor fails for this request only: the controller cannot be resolved
	exitCancelEarly // the client goes away while the first configured middleware runs: the scope is closed (by its watcher) before Handle resolves
	nExits
)

var exitNames = []string{"ok", "mw-error", "handler-error", "handler-panic", "scope-create-fail", "provider-closed", "client-cancel", "resolve-fail", "cancel-before-handle"}

const (
	routePlain   = iota // handler reads the scope from the request context
	routeHandle         // Handle[T] wrapper resolving the controller
	routeNoScope        // Handle[T] on a route without the scope middleware
	routeUnreg          // Handle[T] for a controller nobody registered
	nRoutes
)

var routeNames = []string{"/s/plain", "/s/handle", "/noscope", "/s/unreg"}

type webCase struct {
	Framework     int
	CustomErr     bool // custom error handler that only writes a response
	CustomClose   bool
	NMw           int
	Recovery      bool // Handle: panic recovery enabled
	CustomHandler bool // Handle: custom panic/scope/resolution handlers
	CloseErr      bool // the scoped service's Close returns an error
	Decoy         int  // second ScopeMiddleware instance with its own options: bit0 built before, bit1 built after the one serving the routes
	DecoyMw       int
	Batches       [][]webReq
}

type webReq struct {
	Route    int
	Exit     int
	MwFailAt int
	NoSettle bool // client-cancel: the handler goes on at once instead of waiting until everybody reacted to the cancellation
}

func (r webReq) String() string {
	s := routeNames[r.Route] + " -> " + exitNames[r.Exit]
	if r.Exit == exitMwError {
		s += fmt.Sprintf("(%d)", r.MwFailAt)
	}
	if r.Exit == exitClientCancel && r.NoSettle {
		s += "(handler continues at once)"
	}
	return s
}

func (c *webCase) Describe() map[string]any {
	var bs [][]string
	for _, b := range c.Batches {
		var s []string
		for _, r := range b {
			s = append(s, r.String())
		}
		bs = append(bs, s)
	}
	return map[string]any{"engine": "web-sim", "framework": frameworks[c.Framework], "custom_error_handler_only_writes": c.CustomErr,
		"custom_close_error_handler": c.CustomClose, "middlewares": c.NMw, "handle_panic_recovery": c.Recovery,
		"handle_custom_handlers": c.CustomHandler, "scoped_close_fails": c.CloseErr, "second_middleware_instance(1=before,2=after,3=both)": c.Decoy, "second_instance_middlewares": c.DecoyMw, "request_batches(concurrent within a batch)": bs}
}

func decodeWebCase(tier string, idx int, tape *Tape) *webCase {
	c := &webCase{Framework: idx % len(frameworks)}
	c.CustomErr = tape.Choose(StCfg, 2) == 1
	c.CustomClose = tape.Choose(StCfg, 2) == 1
	c.NMw = tape.Choose(StCfg, 4)
	c.Recovery = tape.Choose(StCfg, 2) == 1
	c.CustomHandler = tape.Choose(StCfg, 2) == 1
	c.CloseErr = tape.Choose(StFault, 4) == 3
	if tape.Choose(StCfg, 2) == 1 {
		c.Decoy = 1 + tape.Choose(StCfg, 3)
		c.DecoyMw = tape.Choose(StCfg, 4)
	}
	nb := 1 + tape.Choose(StOps, 3)
	closed := false
	for b := 0; b < nb; b++ {
		n := 1
		if tape.Choose(StOps, 2) == 1 {
			n = 2 + tape.Choose(StOps, 3)
		}
		var batch []webReq
		for i := 0; i < n; i++ {
			r := webReq{Route: tape.Choose(StOps, nRoutes)}
			if tape.Choose(StOps, 3) == 0 {
				r.Route = routePlain
			}
			r.Exit = tape.Choose(StFault, nExits)
			if tape.Choose(StFault, 3) == 0 {
				r.Exit = exitOK
			}
			if r.Exit == exitMwError {
				if c.NMw == 0 {
					r.Exit = exitOK
				} else {
					r.MwFailAt = tape.Choose(StFault, c.NMw)
				}
			}
			if r.Exit == exitProviderClosed {
				if b != nb-1 || n != 1 {
					r.Exit = exitOK // only as the single request of the last batch
				} else {
					closed = true
				}
			}
			if closed && r.Exit != exitProviderClosed {
				r.Exit = exitOK
			}
			if r.Route == routeNoScope || r.Route == routeUnreg {
				if r.Exit == exitHandlerError || r.Exit == exitHandlerPanic || r.Exit == exitClientCancel {
					r.Exit = exitOK // the controller method never runs on these routes
				}
			}
			if r.Route == routeNoScope && r.Exit != exitProviderClosed {
				r.Exit = exitOK
			}
			if r.Exit == exitResolveFail && r.Route != routeHandle {
				r.Exit = exitOK
			}
			if r.Exit == exitClientCancel {
				r.NoSettle = tape.Choose(StFault, 2) == 1
			}
			if r.Exit == exitCancelEarly && (r.Route != routeHandle || c.NMw == 0) {
				r.Exit = exitOK
			}
			batch = append(batch, r)
		}
		c.Batches = append(c.Batches, batch)
	}
	return c
}

// --- services -------------------------------------------------------------

type webScoped struct {
	id, req    int
	closed     int
	closeSeq   int
	run        *webRun
	closeFails bool
}

//go:norace
func (s *webScoped) Close() error {
	s.closed++
	s.closeSeq = s.run.tick()
	simrt.Yield(siteCloseEnter)
	if s.closeFails && s.closed == 1 {
		return errors.New("injected scoped Close failure")
	}
	return nil
}

type webSingleton struct{ n int }

type webController struct {
	scope godi.Scope
	svc   *webScoped
	run   *webRun
}

type webUnregController struct{}

type webRec struct {
	id            int
	req           webReq
	ctx           *simContext
	createCalls   int
	created       []godi.Scope
	createErr     error
	onAppScope    bool // the incoming context carried an application scope of the same provider
	mwSeen        []godi.Scope
	mwOrder       []int
	handlerRan    int
	handlerScope  godi.Scope
	handlerScopeE error
	ctrlScope     godi.Scope
	ctrlSvc       *webScoped
	methodRan     int
	errHandler    int
	errHandlerSeq int
	closeErrH     int
	scopeErrH     int
	resErrH       int
	panicH        int
	insts         []*webScoped
	status        int
	body          string
	outerPanic    any
	decoyCalls    int
	handlerEndSeq int
	done          bool
	afterGetErr   error
	afterProbed   bool
	handlerInst   *webScoped
	handlerInst2  *webScoped
}

type webRun struct {
	decoys  []any
	c       *webCase
	recs    []*webRec
	cur     [simrt.MaxTasks]*webRec
	seq     int
	nextSvc int
	h       *H
	prov    godi.Provider
}

//go:norace
func (r *webRun) tick() int { r.seq++; return r.seq }

//go:norace
func (r *webRun) rec() *webRec {
	t := simrt.Current()
	if t == nil {
		return nil
	}
	return r.cur[t.ID]
}

var errMw = errors.New("injected middleware error")
var errHandler = errors.New("injected handler error")
var errScopeInit = errors.New("injected scope initializer failure")
var errResolve = errors.New("injected constructor failure for this request")

//go:norace
func (r *webRun) buildProvider() (godi.Provider, error) {
	c := godi.NewCollection()
	c.AddSingleton(func() *webSingleton { return &webSingleton{} })
	c.AddScoped(func(g *webSingleton) (*webScoped, error) {
		rec := r.rec()
		if rec != nil && rec.req.Exit == exitResolveFail {
			return nil, errResolve
		}
		s := &webScoped{id: r.nextSvc, run: r, req: -1, closeFails: r.c.CloseErr}
		r.nextSvc++
		if rec != nil {
			s.req = rec.id
			rec.insts = append(rec.insts, s)
		}
		simrt.Yield(siteCtorEnter)
		return s, nil
	})
	c.AddScoped(func(s godi.Scope, svc *webScoped) *webController {
		if rec := r.rec(); rec != nil {
			rec.ctrlScope = s
			rec.ctrlSvc = svc
		}
		return &webController{scope: s, svc: svc, run: r}
	})
	// runs once per scope creation (C02): this is how scope creations are attributed to requests
	c.AddScoped(func(s godi.Scope) error {
		rec := r.rec()
		if rec == nil {
			return nil
		}
		rec.createCalls++
		if rec.req.Exit == exitScopeCreateFail {
			rec.createErr = errScopeInit
			return errScopeInit
		}
		rec.created = append(rec.created, s)
		return nil
	})
	return c.Build()
}

// common handler body: what a handler does with the scope it sees.
//
//go:norace
func (r *webRun) handlerBody(scope godi.Scope, scopeErr error) error {
	rec := r.rec()
	if rec == nil {
		return nil
	}
	rec.handlerRan++
	rec.handlerScope, rec.handlerScopeE = scope, scopeErr
	if scope != nil {
		if v, err := godi.Resolve[*webScoped](scope); err == nil {
			rec.handlerInst = v
		}
	}
	simrt.Yield(siteHandler)
	if rec.req.Exit == exitClientCancel && rec.ctx != nil {
		rec.ctx.Cancel()
		if rec.req.NoSettle {
			simrt.Yield(siteHandler) // whoever reacts to the cancellation may run now, later, or after the request
		} else {
			simrt.Settle(siteWait) // let the watcher close the scope while the handler is still running
		}
	}
	if scope != nil {
		if v, err := godi.Resolve[*webScoped](scope); err == nil {
			rec.handlerInst2 = v
		}
	}
	rec.handlerEndSeq = r.tick()
	switch rec.req.Exit {
	case exitHandlerError:
		return errHandler
	case exitHandlerPanic:
		panic("injected handler panic")
	}
	return nil
}

//go:norace
func (r *webRun) methodBody(ctrl *webController) error {
	rec := r.rec()
	if rec == nil {
		return nil
	}
	rec.methodRan++
	return r.handlerBody(ctrl.scope, nil)
}

//go:norace
func (r *webRun) mwBody(i int, scope godi.Scope) error {
	rec := r.rec()
	if rec == nil {
		return nil
	}
	rec.mwSeen = append(rec.mwSeen, scope)
	rec.mwOrder = append(rec.mwOrder, i)
	if i == 0 && scope != nil {
		// a middleware that uses the request's scope (authentication, tenant lookup ...)
		godi.Resolve[*webScoped](scope)
	}
	simrt.Yield(siteMiddleware)
	if rec.req.Exit == exitMwError && rec.req.MwFailAt == i {
		return errMw
	}
	if rec.req.Exit == exitCancelEarly && i == 0 && rec.ctx != nil {
		rec.ctx.Cancel()
		simrt.Settle(siteWait) // the scope's watcher closes the scope before the handler chain goes on
	}
	return nil
}

// decoyHit: an option given to the second ScopeMiddleware instance was used for
// a request that only passes the first.
//
//go:norace
func (r *webRun) decoyHit() {
	if rec := r.rec(); rec != nil {
		rec.decoyCalls++
	}
}

// --- adapters ---------------------------------------------------------------

type webApp interface {
	serve(rec *webRec)
}

func recID(r *http.Request) string { return r.Header.Get("X-Rec") }

// net/http and chi share handler types.
type stdApp struct{ h http.Handler }

func (a *stdApp) serve(rec *webRec) {
	req := httptest.NewRequest("GET", routeNames[rec.req.Route], nil)
	req = req.WithContext(rec.ctx)
	w := httptest.NewRecorder()
	a.h.ServeHTTP(w, req)
	rec.status, rec.body = w.Code, w.Body.String()
}

func (r *webRun) stdParts(isChi bool) (scopeMw func(http.Handler) http.Handler, plain, handle, noscope, unreg http.Handler, recoverMw func(http.Handler) http.Handler) {
	c := r.c
	cp := r.prov // the provider itself: a wrapper would hide comparisons such as scope.Provider() == provider
	errH := func(w http.ResponseWriter, rq *http.Request, err error) {
		if rec := r.rec(); rec != nil {
			rec.errHandler++
			rec.errHandlerSeq = r.tick()
		}
		w.WriteHeader(599)
	}
	closeH := func(err error) {
		if rec := r.rec(); rec != nil {
			rec.closeErrH++
		}
	}
	plainF := func(w http.ResponseWriter, rq *http.Request) {
		s, err := godi.FromContext(rq.Context())
		if e := r.handlerBody(s, err); e != nil {
			w.WriteHeader(500)
		}
	}
	method := func(ctrl *webController, w http.ResponseWriter, rq *http.Request) {
		if e := r.methodBody(ctrl); e != nil {
			w.WriteHeader(500)
		}
	}
	methodU := func(ctrl *webUnregController, w http.ResponseWriter, rq *http.Request) {
		if rec := r.rec(); rec != nil {
			rec.methodRan++
		}
	}
	panicH := func(w http.ResponseWriter, rq *http.Request, v any) {
		if rec := r.rec(); rec != nil {
			rec.panicH++
		}
		w.WriteHeader(598)
	}
	scopeEH := func(w http.ResponseWriter, rq *http.Request, err error) {
		if rec := r.rec(); rec != nil {
			rec.scopeErrH++
		}
		w.WriteHeader(597)
	}
	resEH := func(w http.ResponseWriter, rq *http.Request, err error) {
		if rec := r.rec(); rec != nil {
			rec.resErrH++
		}
		w.WriteHeader(596)
	}
	recoverMw = func(next http.Handler) http.Handler {
		return http.HandlerFunc(func(w http.ResponseWriter, rq *http.Request) {
			defer func() {
				if v := recover(); v != nil {
					if a, ok := v.(*simrt.Abort); ok {
						panic(a)
					}
					if rec := r.rec(); rec != nil {
						rec.outerPanic = v
					}
					w.WriteHeader(500)
				}
			}()
			next.ServeHTTP(w, rq)
		})
	}
	mk := func(i int) func(godi.Scope, *http.Request) error {
		return func(s godi.Scope, rq *http.Request) error { return r.mwBody(i, s) }
	}
	if isChi {
		var opts []godichi.Option
		if c.CustomErr {
			opts = append(opts, godichi.WithErrorHandler(errH))
		}
		if c.CustomClose {
			opts = append(opts, godichi.WithCloseErrorHandler(closeH))
		}
		for i := 0; i < c.NMw; i++ {
			opts = append(opts, godichi.WithMiddleware(mk(i)))
		}
		decoy := func() {
			d := []godichi.Option{godichi.WithErrorHandler(func(w http.ResponseWriter, rq *http.Request, err error) { r.decoyHit(); w.WriteHeader(598) }),
				godichi.WithCloseErrorHandler(func(error) { r.decoyHit() })}
			for i := 0; i < c.DecoyMw; i++ {
				d = append(d, godichi.WithMiddleware(mk(100+i)))
			}
			r.decoys = append(r.decoys, godichi.ScopeMiddleware(cp, d...))
		}
		if c.Decoy&1 != 0 {
			decoy()
		}
		scopeMw = godichi.ScopeMiddleware(cp, opts...)
		if c.Decoy&2 != 0 {
			decoy()
		}
		var ho []godichi.HandlerOption
		ho = append(ho, godichi.WithPanicRecovery(c.Recovery))
		if c.CustomHandler {
			ho = append(ho, godichi.WithPanicHandler(panicH), godichi.WithScopeErrorHandler(scopeEH), godichi.WithResolutionErrorHandler(resEH))
		}
		handle = godichi.Handle(method, ho...)
		noscope = godichi.Handle(method, ho...)
		unreg = godichi.Handle(methodU, ho...)
	} else {
		var opts []godihttp.Option
		if c.CustomErr {
			opts = append(opts, godihttp.WithErrorHandler(errH))
		}
		if c.CustomClose {
			opts = append(opts, godihttp.WithCloseErrorHandler(closeH))
		}
		for i := 0; i < c.NMw; i++ {
			opts = append(opts, godihttp.WithMiddleware(mk(i)))
		}
		decoy := func() {
			d := []godihttp.Option{godihttp.WithErrorHandler(func(w http.ResponseWriter, rq *http.Request, err error) { r.decoyHit(); w.WriteHeader(598) }),
				godihttp.WithCloseErrorHandler(func(error) { r.decoyHit() })}
			for i := 0; i < c.DecoyMw; i++ {
				d = append(d, godihttp.WithMiddleware(mk(100+i)))
			}
			r.decoys = append(r.decoys, godihttp.ScopeMiddleware(cp, d...))
		}
		if c.Decoy&1 != 0 {
			decoy()
		}
		scopeMw = godihttp.ScopeMiddleware(cp, opts...)
		if c.Decoy&2 != 0 {
			decoy()
		}
		var ho []godihttp.HandlerOption
		ho = append(ho, godihttp.WithPanicRecovery(c.Recovery))
		if c.CustomHandler {
			ho = append(ho, godihttp.WithPanicHandler(panicH), godihttp.WithScopeErrorHandler(scopeEH), godihttp.WithResolutionErrorHandler(resEH))
		}
		handle = godihttp.Handle(method, ho...)
		noscope = godihttp.Handle(method, ho...)
		unreg = godihttp.Handle(methodU, ho...)
	}
	plain = http.HandlerFunc(plainF)
	return
}

func (r *webRun) newHTTPApp() webApp {
	scopeMw, plain, handle, noscope, unreg, rec := r.stdParts(false)
	inner := http.NewServeMux()
	inner.Handle("/s/plain", plain)
	inner.Handle("/s/handle", handle)
	inner.Handle("/s/unreg", unreg)
	top := http.NewServeMux()
	top.Handle("/noscope", rec(noscope))
	top.Handle("/s/", rec(scopeMw(inner)))
	return &stdApp{h: top}
}

// The chi integration is plain net/http middleware; the go-chi router itself is
// not available offline, so it is mounted on a net/http ServeMux (stated as a
// stub in the evidence).
func (r *webRun) newChiApp() webApp {
	scopeMw, plain, handle, noscope, unreg, rec := r.stdParts(true)
	inner := http.NewServeMux()
	inner.Handle("/s/plain", plain)
	inner.Handle("/s/handle", handle)
	inner.Handle("/s/unreg", unreg)
	top := http.NewServeMux()
	top.Handle("/noscope", rec(noscope))
	top.Handle("/s/", rec(scopeMw(inner)))
	return &stdApp{h: top}
}

func (r *webRun) newGinApp() webApp {
	c := r.c
	gin.SetMode(gin.ReleaseMode)
	cp := r.prov // the provider itself: a wrapper would hide comparisons such as scope.Provider() == provider
	var opts []godigin.Option
	if c.CustomErr {
		opts = append(opts, godigin.WithErrorHandler(func(g *gin.Context, err error) {
			if rec := r.rec(); rec != nil {
				rec.errHandler++
				rec.errHandlerSeq = r.tick()
			}
			g.Status(599) // only writes a response
		}))
	}
	if c.CustomClose {
		opts = append(opts, godigin.WithCloseErrorHandler(func(err error) {
			if rec := r.rec(); rec != nil {
				rec.closeErrH++
			}
		}))
	}
	for i := 0; i < c.NMw; i++ {
		i := i
		opts = append(opts, godigin.WithMiddleware(func(s godi.Scope, g *gin.Context) error {
			err := r.mwBody(i, s)
			if rec := r.rec(); err != nil && rec != nil && rec.id%2 == 1 {
				// a middleware that answers by itself before reporting the failure (401 + error):
				// the error handler still runs exactly once
				g.AbortWithStatus(401)
			}
			return err
		}))
	}
	var ho []godigin.HandlerOption
	ho = append(ho, godigin.WithPanicRecovery(c.Recovery))
	if c.CustomHandler {
		ho = append(ho,
			godigin.WithPanicHandler(func(g *gin.Context, v any) {
				if rec := r.rec(); rec != nil {
					rec.panicH++
				}
				g.Status(598)
			}),
			godigin.WithScopeErrorHandler(func(g *gin.Context, err error) {
				if rec := r.rec(); rec != nil {
					rec.scopeErrH++
				}
				g.Status(597)
			}),
			godigin.WithResolutionErrorHandler(func(g *gin.Context, err error) {
				if rec := r.rec(); rec != nil {
					rec.resErrH++
				}
				g.Status(596)
			}))
	}
	method := func(ctrl *webController, g *gin.Context) {
		if e := r.methodBody(ctrl); e != nil {
			g.Status(500)
		}
	}
	methodU := func(ctrl *webUnregController, g *gin.Context) {
		if rec := r.rec(); rec != nil {
			rec.methodRan++
		}
	}
	e := gin.New()
	e.Use(func(g *gin.Context) {
		defer func() {
			if v := recover(); v != nil {
				if a, ok := v.(*simrt.Abort); ok {
					panic(a)
				}
				if rec := r.rec(); rec != nil {
					rec.outerPanic = v
				}
				g.AbortWithStatus(500)
			}
		}()
		g.Next()
	})
	decoy := func() {
		d := []godigin.Option{godigin.WithErrorHandler(func(g *gin.Context, err error) { r.decoyHit(); g.Status(598) }),
			godigin.WithCloseErrorHandler(func(error) { r.decoyHit() })}
		for i := 0; i < c.DecoyMw; i++ {
			i := i
			d = append(d, godigin.WithMiddleware(func(s godi.Scope, g *gin.Context) error { return r.mwBody(100+i, s) }))
		}
		r.decoys = append(r.decoys, godigin.ScopeMiddleware(cp, d...))
	}
	if c.Decoy&1 != 0 {
		decoy()
	}
	mainMw := godigin.ScopeMiddleware(cp, opts...)
	if c.Decoy&2 != 0 {
		decoy()
	}
	grp := e.Group("/s", mainMw)
	grp.GET("/plain", func(g *gin.Context) {
		s, err := godi.FromContext(g.Request.Context())
		if e := r.handlerBody(s, err); e != nil {
			g.Status(500)
		}
	})
	grp.GET("/handle", godigin.Handle(method, ho...))
	grp.GET("/unreg", godigin.Handle(methodU, ho...))
	e.GET("/noscope", godigin.Handle(method, ho...))
	return &stdApp{h: e}
}

func (r *webRun) newEchoApp() webApp {
	c := r.c
	cp := r.prov // the provider itself: a wrapper would hide comparisons such as scope.Provider() == provider
	var opts []godiecho.Option
	if c.CustomErr {
		opts = append(opts, godiecho.WithErrorHandler(func(ec echo.Context, err error) error {
			if rec := r.rec(); rec != nil {
				rec.errHandler++
				rec.errHandlerSeq = r.tick()
			}
			return ec.NoContent(599)
		}))
	}
	if c.CustomClose {
		opts = append(opts, godiecho.WithCloseErrorHandler(func(err error) {
			if rec := r.rec(); rec != nil {
				rec.closeErrH++
			}
		}))
	}
	for i := 0; i < c.NMw; i++ {
		i := i
		opts = append(opts, godiecho.WithMiddleware(func(s godi.Scope, ec echo.Context) error { return r.mwBody(i, s) }))
	}
	var ho []godiecho.HandlerOption
	ho = append(ho, godiecho.WithPanicRecovery(c.Recovery))
	if c.CustomHandler {
		ho = append(ho,
			godiecho.WithPanicHandler(func(ec echo.Context, v any) error {
				if rec := r.rec(); rec != nil {
					rec.panicH++
					if rec.id%2 == 1 {
						return echo.NewHTTPError(598) // the handler reports through its result
					}
				}
				return ec.NoContent(598)
			}),
			godiecho.WithScopeErrorHandler(func(ec echo.Context, err error) error {
				if rec := r.rec(); rec != nil {
					rec.scopeErrH++
				}
				return ec.NoContent(597)
			}),
			godiecho.WithResolutionErrorHandler(func(ec echo.Context, err error) error {
				if rec := r.rec(); rec != nil {
					rec.resErrH++
				}
				return ec.NoContent(596)
			}))
	}
	method := func(ctrl *webController, ec echo.Context) error { return r.methodBody(ctrl) }
	methodU := func(ctrl *webUnregController, ec echo.Context) error {
		if rec := r.rec(); rec != nil {
			rec.methodRan++
		}
		return nil
	}
	e := echo.New()
	e.HideBanner, e.HidePort = true, true
	e.Logger.SetOutput(io.Discard)
	e.Use(func(next echo.HandlerFunc) echo.HandlerFunc {
		return func(ec echo.Context) (err error) {
			defer func() {
				if v := recover(); v != nil {
					if a, ok := v.(*simrt.Abort); ok {
						panic(a)
					}
					if rec := r.rec(); rec != nil {
						rec.outerPanic = v
					}
					err = ec.NoContent(500)
				}
			}()
			return next(ec)
		}
	})
	decoy := func() {
		d := []godiecho.Option{godiecho.WithErrorHandler(func(ec echo.Context, err error) error { r.decoyHit(); return ec.NoContent(598) }),
			godiecho.WithCloseErrorHandler(func(error) { r.decoyHit() })}
		for i := 0; i < c.DecoyMw; i++ {
			i := i
			d = append(d, godiecho.WithMiddleware(func(s godi.Scope, ec echo.Context) error { return r.mwBody(100+i, s) }))
		}
		r.decoys = append(r.decoys, godiecho.ScopeMiddleware(cp, d...))
	}
	if c.Decoy&1 != 0 {
		decoy()
	}
	mainMw := godiecho.ScopeMiddleware(cp, opts...)
	if c.Decoy&2 != 0 {
		decoy()
	}
	g := e.Group("/s", mainMw)
	g.GET("/plain", func(ec echo.Context) error {
		s, err := godi.FromContext(ec.Request().Context())
		return r.handlerBody(s, err)
	})
	g.GET("/handle", godiecho.Handle(method, ho...))
	g.GET("/unreg", godiecho.Handle(methodU, ho...))
	e.GET("/noscope", godiecho.Handle(method, ho...))
	return &stdApp{h: e}
}

// fiber: fasthttp's ServeConn on an in-memory connection.
type memConn struct {
	r *bytes.Reader
	w bytes.Buffer
}

func (c *memConn) Read(p []byte) (int, error)         { return c.r.Read(p) }
func (c *memConn) Write(p []byte) (int, error)        { return c.w.Write(p) }
func (c *memConn) Close() error                       { return nil }
func (c *memConn) LocalAddr() net.Addr                { return &net.TCPAddr{IP: net.IPv4(127, 0, 0, 1), Port: 80} }
func (c *memConn) RemoteAddr() net.Addr               { return &net.TCPAddr{IP: net.IPv4(127, 0, 0, 1), Port: 4242} }
func (c *memConn) SetDeadline(t time.Time) error      { return nil }
func (c *memConn) SetReadDeadline(t time.Time) error  { return nil }
func (c *memConn) SetWriteDeadline(t time.Time) error { return nil }

type fiberApp struct {
	app *fiber.App
	run *webRun
}

func (a *fiberApp) serve(rec *webRec) {
	raw := fmt.Sprintf("GET %s HTTP/1.1\r\nHost: x\r\nConnection: close\r\n\r\n", routeNames[rec.req.Route])
	conn := &memConn{r: bytes.NewReader([]byte(raw))}
	_ = a.app.Server().ServeConn(conn)
	resp := conn.w.String()
	rec.body = resp
	if f := strings.Fields(resp); len(f) >= 2 {
		fmt.Sscanf(f[1], "%d", &rec.status)
	}
}

func (r *webRun) newFiberApp() webApp {
	c := r.c
	cp := r.prov // the provider itself: a wrapper would hide comparisons such as scope.Provider() == provider
	var opts []godifiber.Option
	if c.CustomErr {
		opts = append(opts, godifiber.WithErrorHandler(func(fc *fiber.Ctx, err error) error {
			if rec := r.rec(); rec != nil {
				rec.errHandler++
				rec.errHandlerSeq = r.tick()
			}
			return fc.SendStatus(599)
		}))
	}
	if c.CustomClose {
		opts = append(opts, godifiber.WithCloseErrorHandler(func(err error) {
			if rec := r.rec(); rec != nil {
				rec.closeErrH++
			}
		}))
	}
	for i := 0; i < c.NMw; i++ {
		i := i
		opts = append(opts, godifiber.WithMiddleware(func(s godi.Scope, fc *fiber.Ctx) error { return r.mwBody(i, s) }))
	}
	var ho []godifiber.HandlerOption
	ho = append(ho, godifiber.WithPanicRecovery(c.Recovery))
	if c.CustomHandler {
		ho = append(ho,
			godifiber.WithPanicHandler(func(fc *fiber.Ctx, v any) error {
				if rec := r.rec(); rec != nil {
					rec.panicH++
					if rec.id%2 == 1 {
						return fiber.NewError(598) // the handler reports through its result
					}
				}
				return fc.SendStatus(598)
			}),
			godifiber.WithScopeErrorHandler(func(fc *fiber.Ctx, err error) error {
				if rec := r.rec(); rec != nil {
					rec.scopeErrH++
				}
				return fc.SendStatus(597)
			}),
			godifiber.WithResolutionErrorHandler(func(fc *fiber.Ctx, err error) error {
				if rec := r.rec(); rec != nil {
					rec.resErrH++
				}
				return fc.SendStatus(596)
			}))
	}
	method := func(ctrl *webController, fc *fiber.Ctx) error { return r.methodBody(ctrl) }
	methodU := func(ctrl *webUnregController, fc *fiber.Ctx) error {
		if rec := r.rec(); rec != nil {
			rec.methodRan++
		}
		return nil
	}
	app := fiber.New(fiber.Config{DisableStartupMessage: true})
	app.Use(func(fc *fiber.Ctx) (err error) {
		// outermost: record panics that escape (fiber's own recover middleware sits below)
		return fc.Next()
	})
	app.Use(fiberrecover.New(fiberrecover.Config{EnableStackTrace: false, StackTraceHandler: nil, Next: nil}))
	app.Use(func(fc *fiber.Ctx) error {
		// hand the simulator-owned request context to the integration
		if rec := r.rec(); rec != nil && rec.ctx != nil {
			fc.SetUserContext(rec.ctx)
		}
		defer func() {
			if v := recover(); v != nil {
				if a, ok := v.(*simrt.Abort); ok {
					panic(a)
				}
				if rec := r.rec(); rec != nil {
					rec.outerPanic = v
				}
				panic(v) // let fiber's recover middleware turn it into a 500
			}
		}()
		return fc.Next()
	})
	decoy := func() {
		d := []godifiber.Option{godifiber.WithErrorHandler(func(fc *fiber.Ctx, err error) error { r.decoyHit(); return fc.SendStatus(598) }),
			godifiber.WithCloseErrorHandler(func(error) { r.decoyHit() })}
		for i := 0; i < c.DecoyMw; i++ {
			i := i
			d = append(d, godifiber.WithMiddleware(func(s godi.Scope, fc *fiber.Ctx) error { return r.mwBody(100+i, s) }))
		}
		r.decoys = append(r.decoys, godifiber.ScopeMiddleware(cp, d...))
	}
	if c.Decoy&1 != 0 {
		decoy()
	}
	mainMw := godifiber.ScopeMiddleware(cp, opts...)
	if c.Decoy&2 != 0 {
		decoy()
	}
	g := app.Group("/s", mainMw)
	g.Get("/plain", func(fc *fiber.Ctx) error {
		s := godifiber.FromContext(fc)
		var err error
		if s == nil {
			err = errors.New("no scope in fiber locals")
		}
		return r.handlerBody(s, err)
	})
	g.Get("/handle", godifiber.Handle(method, ho...))
	g.Get("/unreg", godifiber.Handle(methodU, ho...))
	app.Get("/noscope", godifiber.Handle(method, ho...))
	app.Handler() // initialise the router
	return &fiberApp{app: app, run: r}
}

// --- run -------------------------------------------------------------------

func (e *webEngine) Run(prop, tier string, idx int, tape *Tape) *RunOut {
	c := decodeWebCase(tier, idx, tape)
	return e.exec(c, tape)
}

func (e *webEngine) exec(c *webCase, tape *Tape) *RunOut {
	out := &RunOut{Faults: map[string]int{}, Reach: map[string]int{}}
	godi.SimResetCounters()
	run := &webRun{c: c, h: newH(&Config{}, tape)}
	var vs []Violation
	add := func(rule, shape, f string, a ...any) {
		vs = append(vs, Violation{Prop: "C16", Rule: rule, Shape: frameworks[c.Framework] + "/" + shape, Msg: "[" + frameworks[c.Framework] + "] " + fmt.Sprintf(f, a...)})
	}
	var app webApp
	setupDone := false
	var hashes uint64
	steps := 0
	for bi, batch := range c.Batches {
		sim := simrt.New(simrt.Config{Draw: func(stream, n int) int { return tape.Choose(StSched+stream, n) }, Strategy: bi % 3, StickyNum: 5, PCTDepth: 2})
		var recs []*webRec
		for _, rq := range batch {
			rec := &webRec{id: len(run.recs), req: rq}
			run.recs = append(run.recs, rec)
			recs = append(recs, rec)
		}
		for i, rec := range recs {
			rec := rec
			first := i == 0
			sim.AddClient(fmt.Sprintf("req%d", rec.id), nil, func(t *simrt.Task) {
				if !setupDone {
					if !first {
						simrt.Block(siteWait, func() bool { return setupDone })
					} else {
						p, err := run.buildProvider()
						if err != nil {
							trouble("web engine: Build failed: %v", err)
						}
						run.prov = p
						switch c.Framework {
						case 0:
							app = run.newHTTPApp()
						case 1:
							app = run.newChiApp()
						case 2:
							app = run.newGinApp()
						case 3:
							app = run.newEchoApp()
						default:
							app = run.newFiberApp()
						}
						setupDone = true
					}
				}
				simrt.BeginOp()
				run.serveOne(t, app, rec)
			})
		}
		v := sim.Run()
		steps += sim.Steps()
		hashes = hashes*1099511628211 ^ sim.Hash()
		for _, t := range sim.Tasks() {
			if t.Panic != nil {
				if te, ok := t.Panic.(troubleErr); ok {
					panic(te)
				}
				if t.Client {
					add("C16.panic", "escaped", "request task %s: panic escaped the framework: %v\n%s", t.Name, t.Panic, stackHead(string(t.Stack)))
				} else {
					add("C16.panic", "spawned", "goroutine started by godi panicked: %v", t.Panic)
				}
			}
		}
		if len(v.StuckClients) > 0 {
			add("C16.stuck", "stuck", "request tasks %v could make no progress", v.StuckClients)
		}
		if sim.LiveSpawned() > 0 {
			add("C16.closed", "watcher-alive", "%d watcher goroutines are still alive after all requests of the batch finished", sim.LiveSpawned())
		}
		out.Reach["web.requests"] += len(recs)
		if len(recs) > 1 {
			out.Reach["web.concurrent_batches"]++
		}
	}
	run.judge(add, out)
	if run.prov != nil {
		run.prov.Close()
	}
	out.Violations = vs
	out.Steps = steps
	out.SchedHash = hashes
	out.Describe = c.Describe()
	out.CaseHash = hashStr(fmt.Sprint(out.Describe))
	out.NonTrivial = true
	out.Class = frameworks[c.Framework]
	return out
}

//go:norace
func (r *webRun) serveOne(t *simrt.Task, app webApp, rec *webRec) {
	// every third request arrives on a context that already carries a scope of the same provider
	// (a server whose base context is an application scope's context): the request must still get
	// its own fresh scope
	var appScope godi.Scope
	var parent context.Context
	if rec.id%3 == 2 && rec.req.Exit != exitProviderClosed && rec.req.Route != routeNoScope {
		if as, err := r.prov.CreateScope(nil); err == nil {
			appScope, parent = as, as.Context()
			rec.onAppScope = true
		}
	}
	r.cur[t.ID] = rec
	rec.ctx = r.h.newCtx(parent, ctxKey{rec.id}, rec.id)
	if rec.req.Exit == exitProviderClosed {
		r.prov.Close()
	}
	func() {
		defer func() {
			if v := recover(); v != nil {
				if a, ok := v.(*simrt.Abort); ok {
					panic(a)
				}
				panic(v)
			}
		}()
		app.serve(rec)
	}()
	rec.done = true
	// by now the framework has finished the request: the scope must refuse use
	if len(rec.created) > 0 {
		_, err := rec.created[0].Get(reflect.TypeOf((*webSingleton)(nil)))
		rec.afterGetErr = err
		rec.afterProbed = true
	}
	r.cur[t.ID] = nil
	if appScope != nil {
		appScope.Close()
	}
}

func (r *webRun) judge(add func(rule, shape, f string, a ...any), out *RunOut) {
	c := r.c
	owner := map[*webScoped]int{}
	scopeOwner := map[godi.Scope]int{}
	for _, rec := range r.recs {
		rq := rec.req
		name := fmt.Sprintf("request %d (%s)", rec.id, rq)
		out.Reach["web.exit."+exitNames[rq.Exit]]++
		out.Reach["web.route."+routeNames[rq.Route]]++
		if !rec.done {
			continue
		}
		usesScopeMw := rq.Route != routeNoScope
		// C16.oneScope
		if rec.onAppScope {
			out.Reach["web.request-context-already-carries-a-scope"]++
		}
		if usesScopeMw && rq.Exit == exitProviderClosed {
			if rec.createCalls != 0 {
				add("C16.oneScope", "create-count", "%s: a scope was created on a closed provider", name)
			}
		} else if usesScopeMw {
			if rec.createCalls != 1 {
				add("C16.oneScope", "create-count", "%s: the scope middleware called CreateScope %d times", name, rec.createCalls)
			}
		} else if rec.createCalls != 0 {
			add("C16.oneScope", "create-count", "%s: CreateScope called %d times on a route without the scope middleware", name, rec.createCalls)
		}
		var sc godi.Scope
		if len(rec.created) > 0 {
			sc = rec.created[0]
			if prev, ok := scopeOwner[sc]; ok && prev != rec.id {
				add("C16.isolated", "scope-shared", "%s received the scope of request %d", name, prev)
			}
			scopeOwner[sc] = rec.id
		}
		for i, s := range rec.mwSeen {
			if s != sc {
				add("C16.oneScope", "middleware-scope", "%s: middleware %d saw a scope that is not the request's scope", name, rec.mwOrder[i])
			}
		}
		for i, k := range rec.mwOrder {
			if k != i {
				add("C16.oneScope", "middleware-order", "%s: middlewares ran in order %v", name, rec.mwOrder)
				break
			}
		}
		if usesScopeMw && rec.handlerRan+rec.methodRan > 0 && len(rec.mwOrder) != c.NMw {
			add("C16.oneScope", "middleware-count", "%s: %d middlewares configured, the handler ran after %v", name, c.NMw, rec.mwOrder)
		}
		if rec.decoyCalls > 0 {
			add("C16.oneScope", "foreign-options", "%s: %d calls reached handlers configured on another ScopeMiddleware instance", name, rec.decoyCalls)
		}
		if rec.handlerRan > 0 && rq.Route == routePlain && sc != nil && (rec.handlerScopeE != nil || rec.handlerScope != sc) {
			add("C16.oneScope", "handler-scope", "%s: the handler saw scope %v (err %v), the request's scope is %v", name, scopeID(rec.handlerScope), rec.handlerScopeE, scopeID(sc))
		}
		if rec.methodRan > 0 && rq.Route == routeHandle && rec.ctrlScope != sc {
			add("C16.oneScope", "handle-scope", "%s: Handle resolved the controller from scope %v, the request's scope is %v", name, scopeID(rec.ctrlScope), scopeID(sc))
		}
		// C16.isolated
		for _, in := range rec.insts {
			if prev, ok := owner[in]; ok && prev != rec.id {
				add("C16.isolated", "instance-shared", "%s shares scoped instance #%d with request %d", name, in.id, prev)
			}
			owner[in] = rec.id
		}
		for _, in := range []*webScoped{rec.handlerInst, rec.handlerInst2, rec.ctrlSvc} {
			if in != nil && in.req != rec.id {
				add("C16.isolated", "instance-foreign", "%s resolved scoped instance #%d that was created for request %d", name, in.id, in.req)
			}
		}
		if rec.handlerInst != nil && rec.handlerInst2 != nil && rec.handlerInst != rec.handlerInst2 && rq.Exit != exitClientCancel && rq.Exit != exitCancelEarly {
			add("C16.isolated", "instance-changed", "%s: two resolutions in one request returned different scoped instances (#%d, #%d)", name, rec.handlerInst.id, rec.handlerInst2.id)
		}
		// C16.closed
		if rec.errHandlerSeq > 0 && rq.Exit == exitMwError {
			// the scope lives until the request ends: the error handler still sees it open
			for _, in := range rec.insts {
				if in.closed > 0 && in.closeSeq < rec.errHandlerSeq {
					add("C16.closed", "before-error-handler", "%s: scoped instance #%d was closed (seq %d) before the error handler ran (seq %d)", name, in.id, in.closeSeq, rec.errHandlerSeq)
				}
			}
		}
		if rq.Exit != exitClientCancel && rq.Exit != exitCancelEarly && rec.handlerEndSeq > 0 {
			// nobody but the request itself (its middleware, when the request ends) closes the request's scope
			for _, in := range rec.insts {
				if in.closed > 0 && in.closeSeq < rec.handlerEndSeq {
					add("C16.closed", "early/"+exitNames[rq.Exit], "%s: scoped instance #%d was closed (seq %d) while the request's handler was still running (until seq %d)", name, in.id, in.closeSeq, rec.handlerEndSeq)
				}
			}
			if rec.handlerInst != nil && rec.handlerInst2 == nil {
				add("C16.closed", "early/"+exitNames[rq.Exit], "%s: the request's scope stopped resolving in the middle of the handler", name)
			}
		}
		for _, in := range rec.insts {
			if in.closed != 1 {
				add("C16.closed", "instance/"+exitNames[rq.Exit], "%s: scoped instance #%d was closed %d times by the time the request ended", name, in.id, in.closed)
			}
		}
		if rec.afterProbed && !errors.Is(rec.afterGetErr, godi.ErrScopeDisposed) {
			add("C16.closed", "scope/"+exitNames[rq.Exit], "%s: the request's scope still accepts use after the request ended (Get returned %v)", name, rec.afterGetErr)
		}
		if c.CloseErr && c.CustomClose && len(rec.insts) > 0 && rec.closeErrH != 1 && rq.Exit != exitClientCancel && rq.Exit != exitCancelEarly && rq.Exit != exitScopeCreateFail {
			// the close error is reported to the configured handler exactly once (by whoever closed the scope;
			// on client-cancel the watcher may be the one, and it has nowhere to report to)
			if !(c.Framework == 4 && rq.Exit == exitHandlerPanic) {
				add("C16.closed", "close-error-handler", "%s: a scoped Close failed but the close-error handler ran %d times", name, rec.closeErrH)
			}
		}
		// C16.errPath
		expectErrHandler := false
		switch rq.Exit {
		case exitMwError:
			expectErrHandler = usesScopeMw
			if usesScopeMw {
				if len(rec.mwOrder) != rq.MwFailAt+1 {
					add("C16.errPath", "middleware-after-error", "%s: middlewares that ran: %v (middleware %d failed)", name, rec.mwOrder, rq.MwFailAt)
				}
				if rec.handlerRan+rec.methodRan > 0 {
					add("C16.errPath", "handler-after-mw-error", "%s: the handler ran although middleware %d returned an error", name, rq.MwFailAt)
				}
			}
		case exitScopeCreateFail, exitProviderClosed:
			expectErrHandler = usesScopeMw
			if usesScopeMw && rec.handlerRan+rec.methodRan > 0 {
				add("C16.errPath", "handler-without-scope", "%s: the handler ran although the scope could not be created (%v)", name, rec.createErr)
			}
			if usesScopeMw && len(rec.mwOrder) > 0 {
				add("C16.errPath", "middleware-without-scope", "%s: middlewares ran although the scope could not be created", name)
			}
		}
		if c.CustomErr && usesScopeMw {
			want := 0
			if expectErrHandler {
				want = 1
			}
			if rec.errHandler != want {
				add("C16.errPath", "error-handler-count/"+exitNames[rq.Exit], "%s: the error handler ran %d times, expected %d", name, rec.errHandler, want)
			}
		}
		// C16.handle
		middlewareStopped := usesScopeMw && (rq.Exit == exitMwError || rq.Exit == exitScopeCreateFail || rq.Exit == exitProviderClosed)
		if !middlewareStopped {
			switch rq.Route {
			case routeHandle:
				if rq.Exit == exitCancelEarly {
					// the scope is still found, but it is closed: resolving the controller fails
					if rec.methodRan != 0 {
						add("C16.handle", "method-on-closed-scope", "%s: controller method ran although the request's scope had been closed before Handle resolved the controller", name)
					}
					if c.CustomHandler && (rec.resErrH != 1 || rec.scopeErrH != 0) {
						add("C16.handle", "resolution-error-handler/closed-scope", "%s: the scope was found but closed: resolution-error handler ran %d times, scope-error handler %d times (expected 1/0)", name, rec.resErrH, rec.scopeErrH)
					}
					break
				}
				if rq.Exit == exitResolveFail {
					if rec.methodRan != 0 {
						add("C16.handle", "method-without-controller", "%s: controller method ran although the controller could not be resolved from the request's scope", name)
					}
					if c.CustomHandler && (rec.resErrH != 1 || rec.scopeErrH != 0) {
						add("C16.handle", "resolution-error-handler", "%s: resolution-error handler ran %d times, scope-error handler %d times (expected 1/0)", name, rec.resErrH, rec.scopeErrH)
					}
					break
				}
				if rec.methodRan != 1 {
					add("C16.handle", "method-count", "%s: controller method ran %d times", name, rec.methodRan)
				}
				if c.CustomHandler && rec.scopeErrH+rec.resErrH != 0 {
					add("C16.handle", "spurious-error-handler", "%s: scope/resolution error handlers ran (%d/%d) although the controller resolved", name, rec.scopeErrH, rec.resErrH)
				}
			case routeNoScope:
				if rec.methodRan != 0 {
					add("C16.handle", "method-without-scope", "%s: controller method ran without a request scope", name)
				}
				if c.CustomHandler && (rec.scopeErrH != 1 || rec.resErrH != 0) {
					add("C16.handle", "scope-error-handler", "%s: scope-error handler ran %d times, resolution-error handler %d times (expected 1/0)", name, rec.scopeErrH, rec.resErrH)
				}
			case routeUnreg:
				if rec.methodRan != 0 {
					add("C16.handle", "method-without-controller", "%s: controller method ran although the controller is not registered", name)
				}
				if c.CustomHandler && (rec.resErrH != 1 || rec.scopeErrH != 0) {
					add("C16.handle", "resolution-error-handler", "%s: resolution-error handler ran %d times, scope-error handler %d times (expected 1/0)", name, rec.resErrH, rec.scopeErrH)
				}
			}
			if rq.Exit == exitHandlerPanic && rq.Route == routeHandle {
				if c.Recovery {
					if rec.outerPanic != nil {
						add("C16.handle", "panic-not-swallowed", "%s: recovery is enabled but the panic escaped Handle", name)
					}
					if c.CustomHandler && rec.panicH != 1 {
						add("C16.handle", "panic-handler-count", "%s: recovery is enabled, panic handler ran %d times", name, rec.panicH)
					}
					// what the panic handler decided is what the client gets
					if c.CustomHandler && rec.panicH == 1 && rec.status != 598 {
						add("C16.handle", "panic-handler-result", "%s: the custom panic handler answered 598 (directly or through its result) but the response status is %d", name, rec.status)
					}
					if !c.CustomHandler && rec.status < 500 {
						add("C16.handle", "panic-handler-result", "%s: the handler panicked and was recovered by the default panic handler but the response status is %d", name, rec.status)
					}
				} else {
					if rec.outerPanic == nil {
						add("C16.handle", "panic-swallowed", "%s: recovery is disabled but the panic did not propagate out of Handle", name)
					}
					if rec.panicH != 0 {
						add("C16.handle", "panic-handler-count", "%s: recovery is disabled, panic handler ran %d times", name, rec.panicH)
					}
				}
			}
		}
	}
}

func scopeID(s godi.Scope) string {
	if s == nil {
		return "<nil>"
	}
	defer func() { recover() }()
	return s.ID()
}

func (e *webEngine) runTapes(tier string, idx int, tapes [nStreams][]int32) (*RunOut, *webCase) {
	tape := ReplayTape(tapes)
	c := decodeWebCase(tier, idx, tape)
	return e.exec(c, tape), c
}

func (e *webEngine) Replay(rf *ReplayFile) *RunOut {
	out, _ := e.runTapes(rf.Tier, rf.Run, mapToTapes(rf.Tapes))
	return out
}

func (e *webEngine) Minimise(prop, tier string, idx int, tapes [nStreams][]int32, v Violation) *ReplayFile {
	return genericMinimise(e.Name(), prop, tapes, v, func(t [nStreams][]int32) (*RunOut, map[string]any) {
		out, c := e.runTapes(tier, idx, t)
		return out, c.Describe()
	})
}
