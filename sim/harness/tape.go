package main

// Choice tape: every random decision of a case goes through Tape.Choose.
// Four independent streams so that shrinking one does not re-interpret the
// others. In generation mode a stream draws from its PRNG and records; in
// replay mode it reads recorded values (0 when exhausted).

const (
	StCfg    = 0 // registration set
	StOps    = 1 // operation programs, scope tree
	StFault  = 2 // fault plan
	StSched  = 3 // task picks
	StMap    = 4 // map permutations
	nStreams = 5
)

var streamNames = [nStreams]string{"cfg", "ops", "fault", "sched", "map"}

type rng struct{ s uint64 }

//go:norace
func (r *rng) next() uint64 {
	// splitmix64
	r.s += 0x9e3779b97f4a7c15
	z := r.s
	z = (z ^ (z >> 30)) * 0xbf58476d1ce4e5b9
	z = (z ^ (z >> 27)) * 0x94d049bb133111eb
	return z ^ (z >> 31)
}

func mix(a, b uint64) uint64 {
	r := rng{s: a ^ (b * 0x9e3779b97f4a7c15) ^ 0x1234567}
	r.next()
	return r.next()
}

type stream struct {
	rng    rng
	vals   []int32
	pos    int
	replay bool
	// overrun counts reads past the recorded end in replay mode
	overrun int
}

type Tape struct {
	st [nStreams]stream
	// Override, when set, replaces the generated fault plan (fault-position sweep).
	Override *FaultOverride
	// More: further overridden faults (subset enumeration of Close failures)
	More []FaultOverride
}

// FaultOverride: fail exactly the N-th invocation of registration Reg.
type FaultOverride struct {
	Kind      int `json:"kind"`
	Reg       int `json:"reg"`
	N         int `json:"n"`
	PanicKind int `json:"panic_kind"`
}

const tapeCap = 1 << 16

func NewTape(seed uint64) *Tape {
	t := &Tape{}
	for i := range t.st {
		t.st[i].rng = rng{s: mix(seed, uint64(i+1))}
		t.st[i].vals = make([]int32, 0, 256)
	}
	// sched and map streams are appended from norace code: preallocate
	t.st[StSched].vals = make([]int32, 0, tapeCap)
	t.st[StMap].vals = make([]int32, 0, tapeCap)
	return t
}

func ReplayTape(vals [nStreams][]int32) *Tape {
	t := &Tape{}
	for i := range t.st {
		t.st[i].vals = vals[i]
		t.st[i].replay = true
	}
	return t
}

// Choose returns a value in [0,n).
//
//go:norace
func (t *Tape) Choose(s, n int) int {
	if n <= 1 {
		return 0
	}
	st := &t.st[s]
	if st.replay {
		if st.pos < len(st.vals) {
			v := int(st.vals[st.pos])
			st.pos++
			if v < 0 {
				v = 0
			}
			return v % n
		}
		st.overrun++
		return 0
	}
	v := int(st.rng.next() % uint64(n))
	if len(st.vals) < cap(st.vals) {
		st.vals = st.vals[:len(st.vals)+1]
		st.vals[len(st.vals)-1] = int32(v)
	} else if s != StSched && s != StMap {
		st.vals = append(st.vals, int32(v))
	} else {
		panic("tape overflow")
	}
	return v
}

// Bool with probability num/den.
func (t *Tape) Chance(s, num, den int) bool { return t.Choose(s, den) < num }

func (t *Tape) Snapshot() [nStreams][]int32 {
	var out [nStreams][]int32
	for i := range t.st {
		out[i] = append([]int32(nil), t.st[i].vals...)
	}
	return out
}
