package main

import (
	"encoding/json"
	"fmt"
	"hash/fnv"
	"os"
	"os/exec"
	"path/filepath"
	"sort"
	"strings"
	"time"

	"github.com/junioryono/godi/v4/simrt"
)

// containerEngine: registration set x history x fault plan x schedule over the
// real (instrumented) godi, judged by the ledger + reference model.
type containerEngine struct {
	override *FaultOverride // fault-position sweep: plan used by runTapes
	more     []FaultOverride
}

func (e *containerEngine) Name() string { return "container-sim" }

// propGen: generator options per property (a function of prop/tier/run index
// only, so that a replay regenerates the same case from the tapes).
func propGen(prop, tier string, idx int) GenOpts {
	o := defaultGen()
	conc := func(min, max int) { o.MinTasks, o.MaxTasks = min, max }
	// half of all runs are sequential histories (exact-order/exact-count oracles)
	seq := idx%2 == 0
	switch prop {
	case "C01":
		o.WLife = [3]int{6, 2, 2}
		o.PMulti, o.PResult, o.PAs, o.PAs2 = 200, 200, 300, 500
		o.PReuseType, o.PName = 300, 250
		o.NoMultiAs = false
		conc(1, 3)
		o.WOp = [8]int{0, 10, 4, 4, 1, 0, 0, 0}
		if idx%4 == 1 {
			// one registration visible under several interface aliases / group memberships
			o.PAs, o.PAs2, o.PGroup, o.PName = 450, 600, 450, 150
			o.PAliasSkew = 400
			o.WOp = [8]int{0, 8, 8, 4, 1, 0, 0, 0}
		}
		if idx%4 == 3 {
			// constructors returning nil for all or one of their outputs, failing Close methods:
			// neither excuses a singleton constructor from running exactly once
			o.FaultBudget = [4]int{1, 4, 3, 1}
			o.WFault = [4]int{0, 0, 4, 1}
			o.PMulti, o.PResult = 350, 300
		}
	case "C02":
		o.WLife = [3]int{2, 7, 1}
		o.PMulti, o.PResult, o.PVoid = 150, 150, 120
		conc(2, 4)
		if seq {
			conc(1, 1)
		}
		o.WOp = [8]int{0, 14, 4, 2, 0, 0, 0, 0}
		o.MaxOps = 6
		o.PFocus = 500
		o.PReuseType, o.PName, o.PGroup = 300, 250, 250
		if idx%4 == 1 {
			// one registration visible under several interface aliases / group memberships
			o.PAs, o.PAs2, o.PGroup, o.PName = 450, 600, 450, 150
			o.PAliasSkew = 400
			o.WOp = [8]int{0, 8, 9, 3, 0, 0, 0, 0}
			o.PFocus = 150
		}
		// "a failed construction yields no instance and may be retried"
		if idx%4 == 3 {
			// failed constructions may be retried; a constructor that leaves one of several results
			// nil has NOT failed - its other results are the scope's instances and stay so
			o.FaultBudget = [4]int{2, 5, 3, 0}
			o.WFault = [4]int{3, 2, 3, 0}
			o.PMulti, o.PResult = 250, 300
		}
		if idx%8 == 7 {
			// ... asked for again and again: one client, few registrations with several results,
			// nil-result faults only, many resolutions on few handles
			conc(1, 1)
			o.MaxRegs = 2
			o.WLife = [3]int{0, 8, 1}
			o.PMulti, o.PResult, o.PVoid = 300, 600, 0
			o.WFault = [4]int{0, 0, 5, 0}
			o.FaultBudget = [4]int{0, 6, 3, 0}
			o.MaxOps = 12
			o.WOp = [8]int{0, 16, 2, 1, 0, 0, 0, 0}
			o.PFocus = 0
		}
	case "C03":
		o.WLife = [3]int{3, 3, 6}
		o.PMulti, o.PResult = 150, 150
		o.PParamObj, o.POptionalReg = 550, 350
		if idx%4 == 3 {
			// constructors failing at the k-th invocation, also behind optional fields: whatever a
			// failure does to the consumer, no transient instance may be handed out a second time
			o.FaultBudget = [4]int{1, 5, 4, 0}
			o.WFault = [4]int{4, 3, 1, 0}
			o.NoOptionalFail = false
			o.MaxOps = 10
		}
		conc(1, 2)
		if seq {
			conc(1, 1)
		}
		o.WOp = [8]int{0, 12, 5, 3, 0, 0, 0, 0}
	case "C04":
		o.PMulti, o.PResult, o.PAs, o.PName, o.PGroup, o.PParamObj = 200, 250, 300, 250, 300, 600
		o.PIgnored, o.POptionalMissing, o.PGroupDep = 120, 200, 500
		o.PProbeUnregistered = 250
		o.PAs, o.PAs2 = 400, 500
		o.PEmbedType = 250
		o.PInstance, o.PReuseType = 150, 300
		o.NoMultiOpts, o.NoResultGroup = false, false
		o.PResultGroup = 300
		o.PIntKeyProbe = 500
		conc(1, 1)
		o.WOp = [8]int{0, 12, 6, 2, 0, 0, 0, 0}
		o.MaxOps = 10
		if idx%4 == 1 {
			// one registration visible under several interface aliases / group memberships
			o.PAs, o.PAs2, o.PGroup, o.PName = 500, 650, 450, 150
			o.PAliasSkew = 400
			o.WOp = [8]int{0, 8, 9, 2, 0, 0, 0, 0}
		}
		if idx%4 == 2 {
			// several requests being wired at the same time: parameter objects (often of one and the
			// same struct type) are filled for two scopes / two consumers concurrently
			conc(2, 3)
			o.PParamObj = 850
			o.WLife = [3]int{2, 5, 4}
			o.WOp = [8]int{0, 10, 3, 6, 0, 0, 0, 0}
			o.MaxRegs = 5
			o.SchedUserOnly = 100
		}
	case "C05":
		o.PCycle = 500
		o.PDup = 120
		o.MaxRegs = 6
		conc(1, 1)
		o.MaxOps = 4
		o.NoGroupCycle = false
		o.PGroupDep, o.PGroup, o.PParamObj = 500, 300, 600
	case "C07":
		o.PCaptive = 500
		conc(1, 1)
		o.MaxOps = 4
		o.PGroupDep, o.PGroup, o.PParamObj, o.PAs, o.PName = 500, 300, 600, 300, 250
	case "C08":
		o.TransientVoid = idx%2 == 1
		o.PMissing = 400
		o.POptionalMissing = 250
		o.PVoid = 150
		conc(1, 1)
		o.MaxOps = 6
		o.WOp = [8]int{0, 12, 5, 4, 0, 0, 0, 0}
		o.NoScopedInitSingle = false
		o.NoGroupWithDeps = false
		o.PGroupDep, o.PGroup, o.PParamObj = 500, 300, 600
	case "C09":
		conc(2, 4)
		o.PFocus = 300
		o.PMulti, o.PResult, o.PAs = 180, 180, 250
		o.WOp = [8]int{0, 10, 3, 5, 4, 2, 1, 0}
		o.FaultBudget = [4]int{7, 3, 0, 0}
		o.WFault = [4]int{3, 2, 0, 0}
		o.SchedUserOnly = 400
	case "C10":
		o.PDisposable = 800
		if idx%4 == 1 {
			o.PSameObj, o.PMultiIface, o.PResultIface = 600, 500, 400
		}
		o.PMulti, o.PResult, o.PVoid = 150, 150, 220
		conc(1, 3)
		if seq {
			conc(1, 1)
		}
		o.WOp = [8]int{0, 10, 3, 5, 3, 1, 0, 0}
		o.FaultBudget = [4]int{4, 4, 2, 0}
		o.WFault = [4]int{3, 2, 1, 0}
		o.PBuildCancel = 120
	case "C11":
		o.PDisposable = 900
		conc(1, 1)
		o.WOp = [8]int{0, 10, 3, 6, 3, 0, 0, 0}
		o.MaxOps = 12
		if idx%4 == 2 {
			// operations (scope creation with initializers, resolutions) overlapping provider / scope Close
			conc(2, 3)
			o.PVoid = 300
			o.PCloseStorm = 300
			o.WLife = [3]int{3, 5, 2}
			o.PTree = 650
			o.WOp = [8]int{0, 8, 2, 6, 6, 2, 0, 0}
		}
		if idx%2 == 1 {
			// the order must hold whatever Close methods fail
			o.FaultBudget = [4]int{3, 4, 3, 1}
			o.WFault = [4]int{0, 0, 0, 5}
		}
		if idx%8 == 3 {
			// ... and whatever constructors fail: what a failed resolution leaves behind stays
			// owned by the scope and is closed in its place of the order, not when the failure happens
			o.WFault = [4]int{4, 1, 0, 2}
			o.WLife = [3]int{2, 5, 5}
		}
	case "C12":
		o.PDisposable = 900
		o.PCloseStorm = 300
		conc(1, 4)
		if seq {
			conc(1, 1)
		}
		o.WOp = [8]int{0, 8, 2, 5, 6, 2, 0, 0}
		o.FaultBudget = [4]int{2, 4, 3, 2}
		o.WFault = [4]int{0, 0, 0, 5}
		o.PBuildCancel = 80
	case "C13":
		conc(2, 4)
		if seq {
			conc(1, 1)
		}
		o.PCloseStorm = 250
		if idx%4 == 1 {
			// cascading close must be complete whatever Close methods fail
			o.FaultBudget = [4]int{3, 4, 3, 1}
			o.WFault = [4]int{0, 0, 0, 5}
			o.PDisposable = 800
		}
		o.WOp = [8]int{0, 9, 3, 6, 5, 3, 1, 0}
		o.WLife = [3]int{2, 6, 3}
	case "C14":
		conc(1, 2)
		o.PVoid = 250
		o.WOp = [8]int{0, 4, 1, 8, 6, 1, 0, 0}
		o.MaxOps = 12
		o.FaultBudget = [4]int{4, 4, 2, 0}
		o.WFault = [4]int{3, 2, 1, 0}
	case "C15":
		conc(1, 2)
		if seq {
			conc(1, 1)
		}
		o.FaultBudget = [4]int{1, 5, 3, 1}
		o.WFault = [4]int{4, 4, 2, 0}
		o.WOp = [8]int{0, 10, 4, 4, 1, 0, 0, 0}
		o.PVoid = 150
		o.NoOptionalFail = false
		o.PBuildCancel = 120
		o.PCycle, o.PCaptive, o.PMissing, o.PDup = 60, 50, 50, 50
		o.NoGroupCycle = false
		if idx%4 == 3 {
			// constructions overlapping a Close whose late instance fails to close: the error keeps its class
			conc(2, 3)
			o.PDisposable = 850
			o.FaultBudget = [4]int{1, 4, 4, 2}
			o.WFault = [4]int{2, 2, 1, 6}
			o.WOp = [8]int{0, 10, 2, 4, 5, 1, 0, 0}
			o.WLife = [3]int{2, 6, 3}
			o.PFocus = 400
		}
	case "C18":
		o.PBuiltinDep = 500
		o.PParamObj = 500
		o.PBuildCtx = 250
		conc(1, 2)
		o.WOp = [8]int{0, 8, 2, 6, 1, 1, 3, 0}
		o.MaxScopeDepth = 3
	}
	switch prop {
	case "C09", "C10", "C11", "C12", "C13", "C14":
		if o.PTree == 0 {
			o.PTree = 300
		}
	}
	if tier == "thorough" {
		o.MaxRegs += 2
		o.MaxOps += 4
	}
	return o
}

func decodeCase(prop, tier string, idx int, tape *Tape) *Case {
	o := propGen(prop, tier, idx)
	g := &gen{t: tape, o: &o}
	c := &Case{Prop: prop}
	c.Cfg = g.genConfig()
	m := buildModel(c.Cfg)
	c.Progs = g.genPrograms(m)
	c.Faults = g.genFaults(c.Cfg)
	g.genKnobs(c)
	return c
}

func (e *containerEngine) Run(prop, tier string, idx int, tape *Tape) *RunOut {
	c := decodeCase(prop, tier, idx, tape)
	out := e.exec(c, tape)
	if sweepProp(prop) && idx%sweepEvery(tier) == 0 && len(c.Faults) == 0 && !hasOwn(out, prop) {
		e.sweep(prop, tier, idx, tape.Snapshot(), out)
	}
	return out
}

func sweepProp(prop string) bool {
	switch prop {
	case "C10", "C12", "C14", "C15":
		return true
	}
	return false
}

func sweepEvery(tier string) int {
	if tier == "thorough" {
		return 4
	}
	return 10
}

func hasOwn(out *RunOut, prop string) bool {
	for _, v := range out.Violations {
		if v.Prop == prop {
			return true
		}
	}
	return false
}

// sweep: fault-position enumeration. The case just ran fault-free; re-execute
// the same configuration / programs / schedule tape once per position at which
// user code can be made to fail - every constructor invocation (kinds rotated:
// error, panic, nil) and every disposable instance's Close - failing exactly
// that position.
func (e *containerEngine) sweep(prop, tier string, idx int, tapes [nStreams][]int32, out *RunOut) {
	type pos struct{ kind, reg, n int }
	var positions []pos
	seen := map[pos]bool{}
	k := 0
	for _, p := range out.positions {
		kind := FCtorErr + k%3
		if p.close {
			kind = FCloseErr
		} else {
			k++
		}
		if prop == "C12" && !p.close {
			continue
		}
		if prop != "C12" && p.close {
			continue
		}
		q := pos{kind, p.reg, p.n}
		if !seen[q] {
			seen[q] = true
			positions = append(positions, q)
		}
	}
	if len(positions) > 24 {
		positions = positions[:24]
	}
	var plans [][]pos
	if prop == "C12" && len(positions) >= 2 && len(positions) <= 4 {
		// every non-empty subset of the disposable instances fails its Close
		for mask := 1; mask < 1<<len(positions); mask++ {
			var pl []pos
			for b := range positions {
				if mask&(1<<b) != 0 {
					pl = append(pl, positions[b])
				}
			}
			plans = append(plans, pl)
		}
		out.Reach["sweep.close-subsets-enumerated"]++
	} else {
		for _, p := range positions {
			plans = append(plans, []pos{p})
		}
	}
	for i, pl := range plans {
		p := pl[0]
		tape := ReplayTape(tapes)
		tape.Override = &FaultOverride{Kind: p.kind, Reg: p.reg, N: p.n, PanicKind: i % 5}
		for _, q := range pl[1:] {
			tape.More = append(tape.More, FaultOverride{Kind: q.kind, Reg: q.reg, N: q.n})
		}
		c := decodeCase(prop, tier, idx, tape)
		sub := e.exec(c, tape)
		out.Reach["sweep.positions"]++
		out.Steps += sub.Steps
		for kk, vv := range sub.Faults {
			out.Faults[kk] += vv
			out.Reach["sweep.fired."+kk] += vv
		}
		if hasOwn(sub, prop) {
			for _, v := range sub.Violations {
				if v.Prop == prop {
					out.Violations = append(out.Violations, v)
				}
			}
			out.override, out.more = tape.Override, tape.More
			return
		}
	}
}

func (e *containerEngine) exec(c *Case, tape *Tape) *RunOut {
	h := runCase(c, tape)
	a := analyse(h)
	if os.Getenv("VERIF_DEBUG") == "events" {
		// replay aid: the recorded history
		for _, op := range h.allOps {
			fmt.Printf("  op%d task=%d %s handle=h%d seq=%d-%d err=%v insts=%v\n", op.GID, h.opTask[op.GID], op.Op, op.Handle, op.StartSeq, op.EndSeq, firstLine(op.Err), op.Insts)
		}
		for _, ev := range h.evts {
			fmt.Printf("  seq=%d kind=%d task=%d op=%d inv=%d inst=%d\n", ev.Seq, ev.Kind, ev.Task, ev.Op, ev.Inv, ev.Inst)
		}
	}
	out := &RunOut{Faults: map[string]int{}, Reach: map[string]int{}}
	out.Violations = a.evaluate()
	if raceWorker() {
		if rep := collectRaceReport(); rep != "" {
			shape := raceShape(rep)
			if shape == "harness-internal" {
				trouble("race report inside the simulator/harness itself:\n%s", rep)
			}
			out.Violations = append(out.Violations, Violation{Prop: "C09", Rule: "C09.race", Shape: shape, Msg: rep})
		}
	}
	out.Steps = h.sim.Steps()
	out.Switches = h.sim.Switches()
	out.Pairs = h.sim.SwitchPairs()
	out.SchedHash = h.sim.Hash()
	out.Describe = c.Describe()
	out.Class = h.model.V.Class()
	b, _ := json.Marshal(out.Describe["registrations"])
	b2, _ := json.Marshal(out.Describe["programs"])
	out.CaseHash = hashStr(string(b) + string(b2))
	// non-trivial: at least one dependency edge or at least two client tasks
	edges := 0
	for _, r := range c.Cfg.Regs {
		edges += len(r.Deps)
	}
	out.NonTrivial = edges > 0 || len(c.Progs) > 1
	for _, f := range c.Faults {
		if f.Fired > 0 {
			out.Faults[faultNames[f.Kind]] += f.Fired
		}
	}
	for _, inv := range h.invs {
		out.positions = append(out.positions, faultPos{reg: inv.Reg, n: inv.N})
	}
	dn := map[int]int{}
	for _, in := range h.insts {
		if in.Inv >= 0 && h.model.regs[in.Reg].Outs[in.OutIdx].Concrete.IsDisp() {
			out.positions = append(out.positions, faultPos{reg: in.Reg, n: dn[in.Reg], close: true})
			dn[in.Reg]++
		}
	}
	e.reach(h, a, out)
	// schedule trace: one entry per context switch (task, site it resumes at, steps it then ran)
	last, runLen := int32(-1), 0
	for _, te := range h.sim.Trace() {
		if te.Task != last {
			if last >= 0 {
				out.Trace[len(out.Trace)-1] += fmt.Sprintf(" (+%d steps)", runLen)
			}
			out.Trace = append(out.Trace, fmt.Sprintf("t%d @ %s", te.Task, siteName(int(te.Site))))
			last, runLen = te.Task, 0
		} else {
			runLen++
		}
	}
	out.Digest = h.digest()
	for _, t := range h.sim.Tasks() {
		if t.Client && t.Panic != nil {
			if te, ok := t.Panic.(troubleErr); ok {
				panic(te)
			}
			trouble("client task %s panicked in harness code: %v\n%s", t.Name, t.Panic, t.Stack)
		}
	}
	if h.verdict.StepLimit {
		trouble("run step limit reached")
	}
	if h.verdict.TaskLimit {
		trouble("simulator task limit reached")
	}
	return out
}

// reach probes: rare conditions that must be hit for the search to mean something.
func (e *containerEngine) reach(h *H, a *Analysis, out *RunOut) {
	r := out.Reach
	// configuration shapes
	for _, x := range h.cfg.Regs {
		if (x.Form == FMulti || x.Form == FMultiErr) && (x.Name != "" || x.Group != "") && h.model.V.Accepted[x.ID] {
			for _, y := range h.cfg.Regs {
				if y.ID != x.ID && h.model.V.Accepted[y.ID] {
					for _, p := range regIdents(y) {
						for _, o := range x.Outs {
							if p.Id.T == o.T && p.Id.Key == "" && p.Id.Group == "" {
								r["cfg.named-multi-return-next-to-plain-registration-of-same-type"]++
							}
						}
					}
				}
			}
		}
	}
	r["sim.lock_contended"] += h.sim.LockContended
	r["sim.chan_blocked"] += h.sim.ChanBlocked
	r["sim.map_perms"] += h.sim.MapPerms
	r["sim.spawned_tasks"] += h.sim.Spawned
	// overlaps
	type ext struct{ s, e, h, kind, task int }
	var ops []ext
	for _, op := range a.ops {
		if op.Done && op.Handle >= 0 {
			ops = append(ops, ext{op.StartSeq, op.EndSeq, op.Handle, op.Op.Kind, op.Task})
		}
	}
	for i, x := range ops {
		for _, y := range ops[i+1:] {
			if x.task == y.task || x.e < y.s || y.e < x.s {
				continue
			}
			k1, k2 := x.kind, y.kind
			if k1 > k2 {
				k1, k2 = k2, k1
			}
			same := x.h == y.h
			name := fmt.Sprintf("overlap.%s||%s", opNames[k1], opNames[k2])
			if same {
				name += ".same-handle"
			}
			r[name]++
		}
	}
	// two tasks inside one scoped miss window: two invocations of one scoped reg in one scope overlapping
	for i, x := range h.invs {
		for _, y := range h.invs[i+1:] {
			if x.Reg == y.Reg && x.Task != y.Task && h.model.regs[x.Reg].Life == LScoped &&
				a.scopeOfInv(x) == a.scopeOfInv(y) && x.EnterSeq < y.ExitSeq && y.EnterSeq < x.ExitSeq {
				r["two-tasks-in-one-scoped-miss-window"]++
			}
		}
	}
	for _, inv := range h.invs {
		if inv.SharedOuts > 0 {
			r["one-object-under-two-outputs"]++
		}
		if inv.Fault != nil && len(inv.Args) > 0 {
			for _, ar := range inv.Args {
				if ar.Kind == ArgInst || ar.Kind == ArgSlice {
					r["ctor-failed-after-dependency-built"]++
					break
				}
			}
		}
	}
	for _, t := range h.sim.Tasks() {
		if !t.Client && t.Done() {
			r["watcher-ran"]++
		}
	}
	for _, op := range a.ops {
		if op.Done && op.Err != nil {
			r["op-error."+errClassNames[op.Class]]++
		}
		if op.ViaRoot {
			r["op-via-root-scope."+opNames[op.Op.Kind]]++
		}
	}
}

func (h *H) digest() string {
	f := fnv.New64a()
	for _, ev := range h.evts {
		fmt.Fprintf(f, "%d,%d,%d,%d,%d,%d;", ev.Seq, ev.Kind, ev.Task, ev.Op, ev.Inv, ev.Inst)
	}
	for _, op := range h.allOps {
		fmt.Fprintf(f, "op%d:%d:%d:%v;", op.GID, op.Class, op.Handle, op.Insts)
	}
	return fmt.Sprintf("%016x", f.Sum64())
}

// ---------------------------------------------------------------------------
// Replay + minimisation.

func tapesToMap(t [nStreams][]int32) map[string][]int32 {
	m := map[string][]int32{}
	for i, n := range streamNames {
		m[n] = t[i]
	}
	return m
}

func mapToTapes(m map[string][]int32) [nStreams][]int32 {
	var t [nStreams][]int32
	for i, n := range streamNames {
		t[i] = m[n]
	}
	return t
}

func (e *containerEngine) runTapes(prop, tier string, idx int, tapes [nStreams][]int32) (*RunOut, *Case) {
	tape := ReplayTape(tapes)
	tape.Override, tape.More = e.override, e.more
	c := decodeCase(prop, tier, idx, tape)
	out := e.exec(c, tape)
	return out, c
}

func (e *containerEngine) Replay(rf *ReplayFile) *RunOut {
	e.override, e.more = nil, nil
	if rf.Override != nil {
		e.override, e.more = rf.Override, rf.More
	}
	out, _ := e.runTapes(rf.Property, rf.Tier, rf.Run, mapToTapes(rf.Tapes))
	return out
}

func hasViolation(out *RunOut, v Violation) *Violation {
	for i := range out.Violations {
		x := &out.Violations[i]
		if x.Prop == v.Prop && x.Rule == v.Rule && x.Shape == v.Shape {
			return x
		}
	}
	return nil
}

func (e *containerEngine) Minimise(prop, tier string, idx int, tapes [nStreams][]int32, v Violation) *ReplayFile {
	rf := e.minimise(prop, tier, idx, tapes, v)
	rf.Override, rf.More = e.override, e.more
	return rf
}

func (e *containerEngine) minimise(prop, tier string, idx int, tapes [nStreams][]int32, v Violation) *ReplayFile {
	deadline := time.Now().Add(45 * time.Second)
	try := func(t [nStreams][]int32) bool {
		defer func() {
			if r := recover(); r != nil {
				// a shrunk tape that confuses the harness is simply not accepted
				_ = r
			}
		}()
		out, _ := e.runTapes(prop, tier, idx, t)
		return hasViolation(out, v) != nil
	}
	if v.Rule == "C09.race" {
		// the race detector reports a given race once per process: every
		// attempt runs in a fresh process
		try = func(t [nStreams][]int32) bool {
			return subprocessTry(&ReplayFile{Property: prop, Rule: v.Rule, Shape: v.Shape, Tier: tier, Run: idx, Tapes: tapesToMap(t), Override: e.override, More: e.more})
		}
		cur := tapes
		minimised := false
		if try(cur) {
			cur = shrinkTapes(cur, try, deadline)
			minimised = true
		}
		tape := ReplayTape(cur)
		c := decodeCase(prop, tier, idx, tape)
		return &ReplayFile{Property: prop, Rule: v.Rule, Shape: v.Shape, Message: v.Msg, Engine: e.Name(),
			Tapes: tapesToMap(cur), Case: c.Describe(), Minimised: minimised}
	}
	cur := tapes
	minimised := false
	if try(cur) {
		cur = shrinkTapes(cur, try, deadline)
		minimised = true
	}
	out, c := e.runTapes(prop, tier, idx, cur)
	vv := hasViolation(out, v)
	if vv == nil {
		// fall back to the original tapes
		cur = tapes
		out, c = e.runTapes(prop, tier, idx, cur)
		vv = hasViolation(out, v)
		minimised = false
		if vv == nil {
			vv = &v
		}
	}
	return &ReplayFile{Property: prop, Rule: vv.Rule, Shape: vv.Shape, Message: vv.Msg, Engine: e.Name(),
		Tapes: tapesToMap(cur), Case: c.Describe(), Trace: out.Trace, Digest: out.Digest, All: out.Violations, Minimised: minimised}
}

// shrinkTapes: delta debugging over the choice tapes. Order: fewer faults,
// fewer operations, smaller configuration, then fewer context switches.
func shrinkTapes(t [nStreams][]int32, ok func([nStreams][]int32) bool, deadline time.Time) [nStreams][]int32 {
	order := []int{StFault, StOps, StCfg, StSched, StMap}
	improved := true
	for improved && time.Now().Before(deadline) {
		improved = false
		for _, s := range order {
			// 1. truncate (replay reads 0 past the end)
			for n := len(t[s]) / 2; n >= 1 && time.Now().Before(deadline); n /= 2 {
				for len(t[s]) >= n {
					cand := t
					cand[s] = append([]int32(nil), t[s][:len(t[s])-n]...)
					if ok(cand) {
						t = cand
						improved = true
					} else {
						break
					}
				}
			}
			// 2. delete chunks
			for n := len(t[s]) / 2; n >= 1 && time.Now().Before(deadline); n /= 2 {
				for i := 0; i+n <= len(t[s]) && time.Now().Before(deadline); {
					cand := t
					cand[s] = append(append([]int32(nil), t[s][:i]...), t[s][i+n:]...)
					if ok(cand) {
						t = cand
						improved = true
					} else {
						i += n
					}
				}
				if s == StSched && n < 4 {
					break
				}
			}
			// 3. zero / halve single values
			lim := len(t[s])
			if s == StSched || s == StMap {
				if lim > 400 {
					lim = 400
				}
			}
			for i := 0; i < lim && i < len(t[s]) && time.Now().Before(deadline); i++ {
				if t[s][i] == 0 {
					continue
				}
				for _, nv := range []int32{0, t[s][i] / 2, t[s][i] - 1} {
					if nv == t[s][i] {
						continue
					}
					cand := t
					cand[s] = append([]int32(nil), t[s]...)
					cand[s][i] = nv
					if ok(cand) {
						t = cand
						improved = true
						break
					}
				}
			}
		}
	}
	return t
}

// ---------------------------------------------------------------------------
// Race-detector report capture (race workers only).

func raceWorker() bool { return simrt.RaceBuild && os.Getenv("VERIF_RACE_WORKER") == "1" }

var raceLogOff int64

func raceLogPath() string {
	p := os.Getenv("VERIF_RACE_LOG")
	if p == "" {
		return ""
	}
	return fmt.Sprintf("%s.%d", p, os.Getpid())
}

func collectRaceReport() string {
	p := raceLogPath()
	if p == "" {
		return ""
	}
	b, err := os.ReadFile(p)
	if err != nil || int64(len(b)) <= raceLogOff {
		return ""
	}
	rep := string(b[raceLogOff:])
	raceLogOff = int64(len(b))
	if !strings.Contains(rep, "DATA RACE") {
		return ""
	}
	if len(rep) > 6000 {
		rep = rep[:6000] + "\n...[truncated]"
	}
	return rep
}

// raceShape: the innermost frame of each of the two accesses of the first
// report, when both are godi code; "harness-internal" when either access is in
// the simulator runtime or the harness itself (that is a defect of this
// machinery and is reported as trouble, never as a violation).
func raceShape(rep string) string {
	var frames []string
	lines := strings.Split(rep, "\n")
	for i, l := range lines {
		l = strings.TrimSpace(l)
		if (strings.HasPrefix(l, "Read at") || strings.HasPrefix(l, "Write at") || strings.HasPrefix(l, "Previous") ||
			strings.HasPrefix(l, "Atomic")) && len(frames) < 2 && i+1 < len(lines) {
			f := strings.TrimSpace(lines[i+1])
			switch {
			case strings.Contains(f, "/simrt.") || strings.HasPrefix(f, "main."):
				return "harness-internal"
			case strings.Contains(f, "junioryono/godi/v4"):
				if k := strings.LastIndex(f, "/v4"); k >= 0 {
					f = f[k+3:]
				}
				frames = append(frames, strings.TrimSuffix(strings.TrimPrefix(f, "."), "()"))
			default:
				// runtime / reflect frame on top: use the first godi frame below it
				for j := i + 2; j < len(lines) && j < i+30; j++ {
					g := strings.TrimSpace(lines[j])
					if g == "" {
						break
					}
					if strings.Contains(g, "/simrt.") || strings.HasPrefix(g, "main.") {
						return "harness-internal"
					}
					if strings.Contains(g, "junioryono/godi/v4") {
						if k := strings.LastIndex(g, "/v4"); k >= 0 {
							g = g[k+3:]
						}
						frames = append(frames, strings.TrimSuffix(strings.TrimPrefix(g, "."), "()"))
						break
					}
				}
			}
		}
	}
	if len(frames) < 2 {
		return "harness-internal"
	}
	sort.Strings(frames)
	return strings.Join(frames, "~")
}

// ---------------------------------------------------------------------------
// Evidence.

func writeEvidence(prop, tier string, seed uint64, tot *Stats, nSched, nCases int, wall float64) {
	level := levelOf(prop)
	cov := map[string]any{
		"evaluations":                            tot.Runs,
		"distinct_nontrivial":                    nCases,
		"rule":                                   "cases = (registration set, client programs, fault plan, schedule) drawn from VERIF_SEED through a choice tape; distinct_nontrivial counts distinct (registrations, programs) descriptions by hash that have at least one dependency edge or at least two concurrent client tasks",
		"samples":                                tot.Samples,
		"simulated_steps":                        tot.Steps,
		"context_switches":                       tot.Switches,
		"distinct_schedules":                     nSched,
		"distinct_switch_site_pairs_max_per_run": tot.SwitchPairs,
		"faults_fired":                           tot.Faults,
		"reach_probes":                           tot.Reach,
		"model_verdict_classes":                  tot.Classes,
		"runs_per_hour":                          int(float64(tot.Runs) / wall * 3600),
		"simulated_time":                         "no wall-clock semantics in godi: simulated time is counted in scheduler steps (simulated_steps)",
		"faults_not_applicable":                  []string{"network loss/duplication/partition", "disk errors / torn writes", "allocation failure", "clock skew"},
		"components_real":                        []string{"godi root module", "internal/reflection", "internal/graph", "integration middlewares", "gin/echo/fiber(fasthttp)/chi/net/http routers"},
		"components_stub":                        []string{"user services (harness constructors, Close methods)", "caller contexts (simulator-owned context.Context)", "network (recorder / in-memory conn) for C16"},
		"known_findings_hit":                     tot.Known,
		"exhaustive":                             false,
	}
	for k, v := range tot.Extra {
		cov[k] = v
	}
	ev := map[string]any{
		"property_id": prop,
		"tier":        tier,
		"seed":        seed,
		"level":       level,
		"coverage":    cov,
		"assumptions": []string{
			"sampling, not enumeration: a clean batch is evidence, not proof",
			"yield points are the sync/atomic/channel/user-code sites; reorderings between two plain memory accesses are covered only by the race-detector layer",
			"Go race detector / GC semantics are trusted where used",
		},
		"wall_s":     wall,
		"violations": len(tot.Violations),
	}
	b, _ := json.MarshalIndent(ev, "", " ")
	os.MkdirAll(filepath.Join(outDir, "evidence"), 0o755)
	os.WriteFile(filepath.Join(outDir, "evidence", prop+".json"), b, 0o644)
}

func levelOf(prop string) string {
	switch prop {
	case "C10", "C12", "C15":
		return "fault_enumeration"
	}
	return "exploration"
}

// subprocessTry replays rf in a fresh process of this binary; true iff the
// recorded (property, rule, shape) reproduces there.
func subprocessTry(rf *ReplayFile) bool {
	f, err := os.CreateTemp("", "verif-try-*.json")
	if err != nil {
		return false
	}
	defer os.Remove(f.Name())
	b, _ := json.Marshal(rf)
	f.Write(b)
	f.Close()
	return subprocessReplay(f.Name())
}

func subprocessReplay(path string) bool {
	self, _ := os.Executable()
	cmd := exec.Command(self, "replay", path)
	cmd.Env = os.Environ()
	err := cmd.Run()
	if ee, ok := err.(*exec.ExitError); ok {
		return ee.ExitCode() == 1
	}
	return false
}
