package main

import (
	"context"
	"errors"
	"fmt"
	"os"
	"reflect"
	"runtime"
	"unsafe"
	"weak"

	"github.com/junioryono/godi/v4"
	"github.com/junioryono/godi/v4/simrt"
)

// leakEngine (C14): N create/(nest)/use/close cycles on contexts the caller
// never cancels, with scope initializers failing at generated positions. The
// ledger keeps only weak pointers, so after the cycles - provider and parent
// scope still alive - nothing of a closed scope may remain reachable, no
// goroutine godi started may remain, and every derived context must have been
// detached from the caller's long-lived context.
type leakEngine struct{}

func (e *leakEngine) Name() string { return "leak-sim" }

type leakSvc struct {
	id     int
	closed int
	dep    *leakSvc
	eng    *leakRun
	kind   int // 1 scoped, 2 transient, 4 singleton
}

func (s *leakSvc) Close() error {
	s.closed++
	simrt.Yield(siteCloseEnter)
	if r := s.eng; r != nil && r.closeFailNow && r.c.CloseFailKinds&s.kind != 0 {
		r.closeFaults++
		return errLeakClose
	}
	return nil
}

type leakScoped struct{ leakSvc }
type leakTransient struct{ leakSvc }
type leakSingleton struct{ leakSvc }
type leakFromInit struct{ leakSvc }

type leakCase struct {
	N          int
	Nest       int  // 0 none, 1 child closed explicitly, 2 child left to the parent's Close
	ParentKind int  // creation context: 0 long-lived caller ctx, 1 nil on a long-lived parent scope, 2 background
	FailEvery  int  // every k-th creation the initializer fails (0 = never)
	FailPos    int  // which initializer fails (0 or 1)
	UseWatcher bool // cancel the creation context of every 7th scope instead of closing it
	Double     bool // call Close twice
	// every k-th cycle the Close methods of the cycle's scoped (1) / transient (2) instances fail
	CloseFailEvery int
	CloseFailKinds int
	// every cycle a second task closes the cycle's scope while the first creates a child on it
	RaceParentClose bool
	// every 5th cycle the scope is created on a context that has already been cancelled
	PreCancelled bool
	// two scopes of consecutive cycles are open at the same time; the older one is closed first
	Overlap bool
}

func (c *leakCase) Describe() map[string]any {
	return map[string]any{"engine": "leak-sim", "cycles": c.N, "nesting": c.Nest, "creation_context": []string{"long-lived caller context", "nil ctx on long-lived parent scope", "background"}[c.ParentKind],
		"initializer_fails_every": c.FailEvery, "failing_initializer": c.FailPos, "close_by_cancel_every_7th": c.UseWatcher, "double_close": c.Double,
		"child_creation_races_with_close_of_the_scope": c.RaceParentClose, "every_5th_scope_created_on_a_cancelled_context": c.PreCancelled, "sibling_scopes_overlap_older_closed_first": c.Overlap, "instance_close_fails_every": c.CloseFailEvery, "failing_close_kinds(1=scoped,2=transient)": c.CloseFailKinds}
}

func decodeLeakCase(tier string, idx int, tape *Tape) *leakCase {
	c := &leakCase{}
	switch tape.Choose(StOps, 6) {
	case 0:
		c.N = 1000
		if tier != "thorough" {
			c.N = 300
		}
	case 1, 2:
		c.N = 100
	default:
		c.N = 1 + tape.Choose(StOps, 12)
	}
	c.Nest = tape.Choose(StOps, 3)
	c.ParentKind = tape.Choose(StOps, 3)
	if tape.Choose(StFault, 2) == 1 {
		c.FailEvery = 1 + tape.Choose(StFault, 5)
		c.FailPos = tape.Choose(StFault, 2)
	}
	c.UseWatcher = tape.Choose(StOps, 3) == 0
	c.Double = tape.Choose(StOps, 4) == 0
	if tape.Choose(StFault, 2) == 1 {
		c.CloseFailEvery = 1 + tape.Choose(StFault, 3)
		c.CloseFailKinds = 1 + tape.Choose(StFault, 3)
	}
	c.PreCancelled = tape.Choose(StOps, 3) == 0
	c.Overlap = idx%3 == 1
	if tape.Choose(StOps, 4) == 0 {
		c.RaceParentClose = true
		if c.N > 100 {
			c.N = 100
		}
	}
	return c
}

type leakRun struct {
	c            *leakCase
	creation     int // scope creations so far (for fault positions)
	failNow      bool
	nextID       int
	weakSvc      []weak.Pointer[leakSvc]
	svcKind      []string
	weakScp      []weak.Pointer[byte]
	closedOK     []*int // close counters survive (tiny) so that exactly-once can be checked
	vs           []Violation
	faults       int
	closeFailNow bool
	closeFaults  int
	initRuns     int
	builtSvcs    int
}

var errInitFail = errors.New("injected initializer failure")
var errLeakClose = errors.New("injected Close failure")

// track registers a weak pointer to a freshly constructed service.
func (r *leakRun) track(kind string, s *leakSvc) {
	s.id = r.nextID
	s.eng = r
	s.kind = map[string]int{"scoped": 1, "transient": 2, "singleton": 4}[kind]
	r.nextID++
	r.weakSvc = append(r.weakSvc, weak.Make(s))
	r.svcKind = append(r.svcKind, kind)
}

func (e *leakEngine) Run(prop, tier string, idx int, tape *Tape) *RunOut {
	c := decodeLeakCase(tier, idx, tape)
	return e.exec(c, tape)
}

func weakScope(s godi.Scope) weak.Pointer[byte] {
	p := reflect.ValueOf(s).UnsafePointer()
	return weak.Make((*byte)(unsafe.Pointer(p)))
}

func (e *leakEngine) exec(c *leakCase, tape *Tape) *RunOut {
	out := &RunOut{Faults: map[string]int{}, Reach: map[string]int{}}
	godi.SimResetCounters()
	r := &leakRun{c: c}
	var prov godi.Provider
	var parentScope godi.Scope
	var callerCtx *simContext
	h := newH(&Config{}, tape) // only for the context table
	strategy := 0
	if c.RaceParentClose {
		strategy = 2 // PCT: the racing tasks run by priority, one change point is aimed at every race
	}
	sim := simrt.New(simrt.Config{Draw: func(stream, n int) int { return tape.Choose(StSched+stream, n) }, StepLimit: 4000000, Strategy: strategy, PCTDepth: 1})
	add := func(rule, shape, f string, a ...any) {
		r.vs = append(r.vs, Violation{Prop: "C14", Rule: rule, Shape: shape, Msg: fmt.Sprintf(f, a...)})
	}
	liveAfter := -1
	sim.AddClient("cycles", nil, func(t *simrt.Task) {
		coll := godi.NewCollection()
		coll.AddSingleton(func() *leakSingleton { x := &leakSingleton{}; r.track("singleton", &x.leakSvc); return x })
		coll.AddScoped(func(g *leakSingleton) *leakScoped { x := &leakScoped{}; r.track("scoped", &x.leakSvc); return x })
		coll.AddTransient(func(g *leakSingleton) *leakTransient {
			x := &leakTransient{}
			r.track("transient", &x.leakSvc)
			return x
		})
		// two scope initializers; the first creates a disposable transient on the way
		coll.AddScoped(func(tr *leakTransient) error {
			r.initRuns++
			if r.failNow && c.FailPos == 0 {
				r.faults++
				return errInitFail
			}
			return nil
		})
		coll.AddScoped(func(s *leakScoped, g *leakSingleton) error {
			r.initRuns++
			if r.failNow && c.FailPos == 1 {
				r.faults++
				return errInitFail
			}
			return nil
		})
		p, err := coll.Build()
		if err != nil {
			add("C14.setup", "build", "Build failed: %v", err)
			return
		}
		prov = p
		r.builtSvcs = len(r.weakSvc) // created for the provider / its root scope: legitimately alive
		callerCtx = h.newCtx(nil, ctxKey{1}, "caller")
		var base godi.Provider = p
		if c.ParentKind == 1 {
			ps, err := p.CreateScope(callerCtx)
			if err != nil {
				add("C14.setup", "parent", "parent scope: %v", err)
				return
			}
			parentScope = ps
			base = ps
			r.builtSvcs = len(r.weakSvc) // the open parent scope's own instances stay alive
		}
		var prevScope godi.Scope
		for i := 0; i < c.N; i++ {
			simrt.BeginOp()
			r.creation++
			r.failNow = c.FailEvery > 0 && r.creation%c.FailEvery == 0
			var ctx context.Context
			var own *simContext
			switch c.ParentKind {
			case 0:
				ctx = callerCtx
			case 1:
				ctx = nil
			default:
				ctx = context.Background()
			}
			byCancel := c.UseWatcher && i%7 == 3 && !r.failNow
			if byCancel {
				own = h.newCtx(callerCtx, nil, nil)
				ctx = own
			}
			if c.PreCancelled && i%5 == 2 && !byCancel && !r.failNow {
				// the caller's context is already done: the watcher fires the moment it exists, possibly
				// before the creation has finished registering the scope anywhere
				pre := h.newCtx(callerCtx, nil, nil)
				pre.Cancel()
				ps, err := base.CreateScope(pre)
				r.failNow = false
				if err == nil {
					r.weakScp = append(r.weakScp, weakScope(ps))
					ps.Get(reflect.TypeOf((*leakTransient)(nil)))
					simrt.Settle(siteWait)
					if _, err := ps.Get(reflect.TypeOf((*leakScoped)(nil))); !errors.Is(err, godi.ErrScopeDisposed) {
						add("C13.cancel", "leak-engine/pre-cancelled", "cycle %d: scope created on an already cancelled context is still usable after every task settled: %v", i, err)
						r.vs[len(r.vs)-1].Prop = "C13"
					}
					ps = nil
				} else if !errors.Is(err, godi.ErrScopeDisposed) && !errors.Is(err, context.Canceled) && !errors.Is(err, errInitFail) {
					add("C14.setup", "create-precancelled", "cycle %d: CreateScope on a cancelled context failed with %v", i, err)
				}
				out.Reach["created-on-cancelled-context"]++
				continue
			}
			s, err := base.CreateScope(ctx)
			r.failNow = false
			if err != nil {
				if !errors.Is(err, errInitFail) {
					add("C14.setup", "create", "cycle %d: CreateScope failed unexpectedly: %v", i, err)
					return
				}
				out.Reach["failed-creations"]++
				continue
			}
			r.weakScp = append(r.weakScp, weakScope(s))
			if _, err := s.Get(reflect.TypeOf((*leakScoped)(nil))); err != nil {
				add("C14.setup", "use", "cycle %d: resolve failed: %v", i, err)
			}
			if _, err := s.Get(reflect.TypeOf((*leakTransient)(nil))); err != nil {
				add("C14.setup", "use", "cycle %d: resolve failed: %v", i, err)
			}
			var child godi.Scope
			if c.Nest > 0 {
				ch, err := s.CreateScope(nil)
				if err == nil {
					child = ch
					r.weakScp = append(r.weakScp, weakScope(ch))
					ch.Get(reflect.TypeOf((*leakTransient)(nil)))
				} else if !errors.Is(err, errInitFail) {
					add("C14.setup", "create-child", "cycle %d: child scope: %v", i, err)
				}
			}
			r.closeFailNow = c.CloseFailEvery > 0 && i%c.CloseFailEvery == 0
			if child != nil && c.Nest == 1 {
				child.Close()
			}
			if c.RaceParentClose && !byCancel {
				// task B closes the scope while this task creates one more child on it: whichever
				// way the overlap resolves, nothing of either scope may stay reachable afterwards
				closedByB := false
				sc := s
				simrt.PCTBurst(1, 40+tape.Choose(StSched, 260))
				simrt.Go(siteWait, func() {
					sc.Close()
					closedByB = true
				})
				if late, err := s.CreateScope(nil); err == nil {
					r.weakScp = append(r.weakScp, weakScope(late))
					late.Get(reflect.TypeOf((*leakTransient)(nil)))
					late.Close()
					out.Reach["raced-child-created"]++
				} else if !errors.Is(err, godi.ErrScopeDisposed) && !errors.Is(err, errInitFail) {
					add("C14.setup", "create-raced", "cycle %d: child creation racing the scope's Close failed with %v", i, err)
				} else {
					out.Reach["raced-child-refused"]++
				}
				simrt.Block(siteWait, func() bool { return closedByB })
				late := 0
				_ = late
			}
			if byCancel {
				own.Cancel()
				simrt.Settle(siteWait)
				out.Reach["closed-by-cancel"]++
				if _, err := s.Get(reflect.TypeOf((*leakScoped)(nil))); !errors.Is(err, godi.ErrScopeDisposed) {
					add("C13.cancel", "leak-engine", "cycle %d: scope still usable after its creation context was cancelled and every task settled: %v", i, err)
					r.vs[len(r.vs)-1].Prop = "C13"
				}
			} else if c.Overlap && !c.RaceParentClose {
				// this cycle's scope stays open until the next cycle has created its own: two siblings
				// are open at once and the older one is closed first
				if prevScope != nil {
					prevScope.Close()
					if prevScope.Context().Err() == nil {
						add("C14.ctx", "not-cancelled", "cycle %d: Context().Err() is nil after the scope was closed", i)
					}
				}
				prevScope = s
				r.closeFailNow = false
				s, child = nil, nil
				out.Reach["cycles"]++
				out.Reach["overlapping-siblings"]++
				continue
			} else {
				s.Close()
				if c.Double {
					s.Close()
				}
			}
			r.closeFailNow = false
			if s.Context().Err() == nil {
				add("C14.ctx", "not-cancelled", "cycle %d: Context().Err() is nil after the scope was closed", i)
			}
			s, child = nil, nil
			out.Reach["cycles"]++
		}
		if prevScope != nil {
			prevScope.Close()
			prevScope = nil
		}
		simrt.Settle(siteWait)
		liveAfter = sim.LiveSpawned()
	})
	v := sim.Run()
	for _, t := range sim.Tasks() {
		if t.Panic != nil {
			if te, ok := t.Panic.(troubleErr); ok {
				panic(te)
			}
			add("C14.panic", "panic", "panicked: %v\n%s", t.Panic, stackHead(string(t.Stack)))
		}
		if t.Client && t.Aborted != nil && t.Aborted.Reason != "teardown" {
			add("C14.stuck", "budget", "cycle task aborted: %s", t.Aborted.Reason)
		}
	}
	if len(v.StuckClients) > 0 {
		add("C14.stuck", "stuck", "cycle task could make no progress")
	}
	if v.StepLimit {
		trouble("leak engine: step limit")
	}
	if v.TaskLimit {
		add("C14.tasks", "watcher/unbounded", "more than %d goroutines started by godi were alive at once during %d create/use/close cycles: the number of goroutines is not bounded", 4096, c.N)
	}
	// quiescent checks with provider (and parent scope) still alive
	if prov != nil && len(r.vs) == 0 {
		if c.ParentKind == 1 {
			// the parent scope keeps one watcher goroutine (it is still open): allowed
			liveAfter--
		}
		if liveAfter > 0 {
			add("C14.tasks", "watcher", "%d goroutines started by godi for scopes that have been closed are still alive after %d cycles", liveAfter, c.N)
		}
		if callerCtx != nil {
			want := 0
			if c.ParentKind == 1 {
				want = 1 // the open parent scope's derived context
			}
			if n := callerCtx.Attached(); n > want {
				shape := "attached"
				if c.FailEvery > 0 {
					shape = "attached/failed-create"
				}
				add("C14.ctx", shape, "after %d cycles the caller's long-lived context still has %d derived contexts attached (expected %d; registered %d, stopped %d)", c.N, n, want, callerCtx.Registered, callerCtx.Stopped)
			}
		}
		runtime.GC()
		runtime.GC()
		runtime.GC()
		liveScopes, liveSvc := 0, map[string]int{}
		var which []int
		for i, w := range r.weakScp {
			if w.Value() != nil {
				liveScopes++
				which = append(which, i)
			}
		}
		for i, w := range r.weakSvc {
			if s := w.Value(); s != nil && i >= r.builtSvcs {
				liveSvc[r.svcKind[i]]++
				which = append(which, 100000+i)
			}
		}
		if os.Getenv("VERIF_DEBUG") != "" {
			fmt.Println("survivors:", which)
		}
		if liveScopes > 0 {
			add("C14.unreachable", "scope", "%d of %d closed scopes are still reachable while the provider%s is alive (after 3 GC cycles)", liveScopes, len(r.weakScp), map[bool]string{true: " and the parent scope", false: ""}[c.ParentKind == 1])
		}
		if len(liveSvc) > 0 {
			add("C14.unreachable", "instance", "instances created in closed scopes are still reachable: %v (of %d created)", liveSvc, len(r.weakSvc))
		}
		out.Reach["scopes-created"] += len(r.weakScp)
		out.Reach["instances-created"] += len(r.weakSvc)
		runtime.KeepAlive(parentScope)
		runtime.KeepAlive(prov)
		prov.Close()
	}
	out.Faults["initializer-error"] += r.faults
	out.Faults["close-error"] += r.closeFaults
	out.Violations = r.vs
	out.Steps = sim.Steps()
	out.SchedHash = sim.Hash()
	out.Describe = c.Describe()
	out.CaseHash = hashStr(fmt.Sprint(out.Describe))
	out.NonTrivial = c.N > 1
	return out
}

func (e *leakEngine) runTapes(tier string, idx int, tapes [nStreams][]int32) (*RunOut, *leakCase) {
	tape := ReplayTape(tapes)
	c := decodeLeakCase(tier, idx, tape)
	return e.exec(c, tape), c
}

func (e *leakEngine) Replay(rf *ReplayFile) *RunOut {
	out, _ := e.runTapes(rf.Tier, rf.Run, mapToTapes(rf.Tapes))
	return out
}

func (e *leakEngine) Minimise(prop, tier string, idx int, tapes [nStreams][]int32, v Violation) *ReplayFile {
	return genericMinimise(e.Name(), prop, tapes, v, func(t [nStreams][]int32) (*RunOut, map[string]any) {
		out, c := e.runTapes(tier, idx, t)
		return out, c.Describe()
	})
}
