package main

import "fmt"

// ---------------------------------------------------------------------------
// Generation of configurations, operation programs and fault plans from the tape.

type GenOpts struct {
	MaxRegs int

	// registration forms
	PMulti, PResult, PVoid, PInstance, PErrForm int // per-mille
	PName, PGroup, PAs, PAs2                    int
	PParamObj                                   int
	PResultKey, PResultGroup, PResultIface      int
	PBuiltinDep, PGroupDep, POptionalMissing    int
	POptionalReg                                int // parameter-object field on a registered service tagged optional
	PAliasSkew                                  int // a registration with two As + Group is preceded by one more member of the first interface's group only (ordinals differ)
	PEmbedType                                  int // an output uses a method-less type (embeddable in parameter objects)
	PIgnored                                    int
	MaxDeps                                     int
	PDisposable                                 int // probability an output type is a D type
	PReuseType                                  int // probability an output reuses a concrete type already produced elsewhere
	PSingleIface                                int // single-return constructor declared with an interface result type
	PMultiIface                                 int // multi-return constructor: one result declared with an interface type
	PIntKeyProbe                                int // per-mille per group: keyed probes with small int keys on the group's type (a member's position is not a key); drawn only when > 0
	TransientVoid                               bool // initializer functions may be registered as transient (Build never runs them; their dependencies must be registered all the same)
	PSameObj                                    int // several outputs, a later one interface-typed: the constructor returns ONE object under both (C10 only; drawn only when > 0)
	PStaticKind                                 int // dependency-free single-output registrations use a closure / method value instead of reflect.MakeFunc

	// lifetimes weights (singleton, scoped, transient)
	WLife [3]int

	// defect seeds (per-mille per configuration)
	PCycle, PCaptive, PMissing, PDup int

	// shapes excluded because another property's known finding owns them
	NoGroupCycle       bool // a cycle that passes through a group edge
	NoGroupWithDeps    bool // singleton consuming a group whose members have dependencies
	NoScopedInitSingle bool // scoped void initializer depending on a singleton
	NoMultiOpts        bool // multi-return with Name/Group
	NoResultGroup      bool // result-object field with group tag
	NoMultiAs          bool // two As options on one registration
	NoSharedObject     bool
	NoOptionalFail     bool

	// history
	MinTasks, MaxTasks int
	MaxOps             int
	WOp                [8]int // weights by op kind (OpResolve..OpFromContext)
	PProbeUnregistered int
	PFocus             int // per-mille: all Resolve ops of the run target one identity on one handle
	PCloseStorm        int // per-mille: every client ends its program by closing the provider (overlapping Close calls)
	PTree              int // per-mille: client 0 starts with a scope-tree template (parent, 2-3 children, resolutions, Close(parent))
	PShuffleRegs       int // per-mille: registration calls are issued in a permuted order
	MaxScopeDepth      int
	CloseProviderInRun int // per-mille: a client closes the provider during the run

	// faults
	PBuildCtx     int    // per-mille: Build runs as BuildWithContext on a cancellable context that is never cancelled
	PBuildCancel  int    // per-mille: Build runs on a context that is cancelled when the k-th constructor invocation is entered
	FaultBudget   [4]int // weights for 0..3 faults
	WFault        [4]int // weights by fault kind
	SchedUserOnly int    // per-mille of runs with user-site-only granularity
}

func defaultGen() GenOpts {
	return GenOpts{
		MaxRegs: 7,
		PMulti:  120, PResult: 120, PVoid: 60, PInstance: 60, PErrForm: 400,
		PName: 150, PGroup: 200, PAs: 200, PAs2: 250,
		PParamObj:  400,
		PResultKey: 250, PResultGroup: 150, PResultIface: 250,
		PBuiltinDep: 100, PGroupDep: 300, POptionalMissing: 100, PIgnored: 60, POptionalReg: 100, PEmbedType: 80,
		MaxDeps:     3,
		PDisposable: 500,
		PReuseType:  150, PSingleIface: 120, PMultiIface: 150, PStaticKind: 350,
		WLife:    [3]int{3, 4, 3},
		MinTasks: 1, MaxTasks: 3, MaxOps: 8,
		WOp:                [8]int{0, 10, 3, 4, 2, 1, 1, 0},
		PProbeUnregistered: 80,
		PShuffleRegs:       500,
		MaxScopeDepth:      3,
		FaultBudget:        [4]int{10, 0, 0, 0},
		WFault:             [4]int{3, 2, 1, 2},
		SchedUserOnly:      300,
		// shapes whose defects have been repaired are generated everywhere
		NoGroupCycle:       false,
		NoGroupWithDeps:    false,
		NoScopedInitSingle: false,
		NoMultiAs:          false,
		// still owned by C04 (see propGen)
		NoMultiOpts:    false,
		NoResultGroup:  false,
		NoOptionalFail: true,
	}
}

type gen struct {
	t *Tape
	o *GenOpts
}

func (g *gen) n(s, n int) int { return g.t.Choose(s, n) }
func (g *gen) p(s, permille int) bool {
	if permille <= 0 {
		return false
	}
	return g.t.Choose(s, 1000) < permille
}

func (g *gen) weighted(s int, w []int) int {
	tot := 0
	for _, x := range w {
		tot += x
	}
	if tot == 0 {
		return 0
	}
	v := g.t.Choose(s, tot)
	for i, x := range w {
		if v < x {
			return i
		}
		v -= x
	}
	return len(w) - 1
}

var keyPool = []string{"k0", "k1", "k2"}
var groupPool = []string{"g0", "g1"}

// genConfig draws a registration set. Dependencies point backwards (to
// earlier registrations) so the base shape is a DAG; defect seeds then add
// what the options allow.
func (g *gen) genConfig() *Config {
	o := g.o
	c := &Config{}
	nregs := 1 + g.n(StCfg, o.MaxRegs)
	usedConcrete := map[int]bool{}
	type avail struct {
		id    Ident
		reg   int
		life  int
		group bool
	}
	var idents []avail
	pickConcrete := func() TypeRef {
		var base, span int
		if g.p(StCfg, o.PEmbedType) {
			k := g.n(StCfg, NE)
			usedConcrete[int(embedRef(k))] = true
			return embedRef(k)
		}
		if g.p(StCfg, o.PDisposable) {
			base, span = NT, ND
		} else {
			base, span = 0, NT-2
		}
		k := g.n(StCfg, span)
		if g.p(StCfg, o.PReuseType) {
			// deliberately reuse a type another registration already produces: the
			// identities then differ only by name / group / alias
			var used []int
			for j := 0; j < span; j++ {
				if usedConcrete[base+j] {
					used = append(used, base+j)
				}
			}
			if len(used) > 0 {
				return TypeRef(used[g.n(StCfg, len(used))])
			}
		}
		for j := 0; j < span; j++ {
			idx := base + (k+j)%span
			if !usedConcrete[idx] {
				usedConcrete[idx] = true
				return TypeRef(idx)
			}
		}
		// pool exhausted for this kind: reuse (may create a duplicate identity)
		return TypeRef(base + k)
	}
	usedIdent := map[Ident]bool{}
	for i := 0; i < nregs; i++ {
		r := &Reg{ID: len(c.Regs)}
		r.Life = g.weighted(StCfg, o.WLife[:])
		// form
		switch {
		case g.p(StCfg, o.PVoid):
			r.Form = FVoid
			if r.Life == LTransient && !o.TransientVoid {
				r.Life = LScoped
			}
		case g.p(StCfg, o.PInstance):
			r.Form = FInstance
			r.Life = LSingleton
		case g.p(StCfg, o.PMulti):
			r.Form = FMulti
		case g.p(StCfg, o.PResult):
			r.Form = FResult
		default:
			r.Form = FSingle
		}
		if r.Form != FInstance && g.p(StCfg, o.PErrForm) {
			r.Form++ // the +err twin
		}
		// outputs
		nouts := 0
		switch r.Form {
		case FSingle, FSingleErr, FInstance:
			nouts = 1
		case FMulti, FMultiErr:
			nouts = 2 + g.n(StCfg, 2)
		case FResult, FResultErr:
			nouts = 1 + g.n(StCfg, 3)
		}
		for j := 0; j < nouts; j++ {
			ct := pickConcrete()
			out := Out{T: ct, Concrete: ct}
			if r.Form == FResult || r.Form == FResultErr {
				if !ct.IsEmbeddable() && g.p(StCfg, o.PResultIface) {
					out.T = ifaceRef(g.n(StCfg, NI))
				}
				if g.p(StCfg, o.PResultKey) {
					out.Key = keyPool[g.n(StCfg, len(keyPool))]
				} else if !o.NoResultGroup && g.p(StCfg, o.PResultGroup) {
					out.Group = groupPool[g.n(StCfg, len(groupPool))]
				}
			}
			if (r.Form == FMulti || r.Form == FMultiErr) && j == nouts-1 && !ct.IsEmbeddable() && g.p(StCfg, o.PMultiIface) {
				out.T = ifaceRef(g.n(StCfg, NI)) // the last result is declared as an interface
			}
			if (r.Form == FSingle || r.Form == FSingleErr) && !ct.IsEmbeddable() && g.p(StCfg, o.PSingleIface) {
				out.T = ifaceRef(g.n(StCfg, NI))
			}
			r.Outs = append(r.Outs, out)
		}
		if o.PSameObj > 0 && len(r.Outs) > 1 && r.Outs[len(r.Outs)-1].T.IsIface() && g.p(StCfg, o.PSameObj) {
			r.SameObj = true
		}
		// options
		switch r.Form {
		case FSingle, FSingleErr, FInstance:
			if g.p(StCfg, o.PName) {
				r.Name = keyPool[g.n(StCfg, len(keyPool))]
			} else if g.p(StCfg, o.PGroup) {
				r.Group = groupPool[g.n(StCfg, len(groupPool))]
			}
			if g.p(StCfg, o.PAs) {
				r.As = []int{g.n(StCfg, NI)}
				if !o.NoMultiAs && g.p(StCfg, o.PAs2) {
					b := g.n(StCfg, NI)
					if b != r.As[0] {
						r.As = append(r.As, b)
					}
				}
			}
		case FMulti, FMultiErr:
			if !o.NoMultiOpts {
				if g.p(StCfg, o.PName) {
					r.Name = keyPool[g.n(StCfg, len(keyPool))]
				} else if g.p(StCfg, o.PGroup) {
					r.Group = groupPool[g.n(StCfg, len(groupPool))]
				}
			}
		}
		if len(r.Outs) == 1 && r.Outs[0].T.IsIface() {
			r.As = nil // the declared result type is already an interface; As would need it to implement another one
		}
		for _, out := range r.Outs {
			if out.Concrete.IsEmbeddable() {
				r.As = nil // method-less types implement no pool interface
			}
		}
		// make non-group identities unique unless a duplicate is wanted
		wantDup := g.p(StCfg, o.PDup)
		if !wantDup {
			for tries := 0; tries < 8; tries++ {
				clash := false
				seen := map[Ident]bool{}
				for _, p := range regIdents(r) {
					if p.Id.Group == "" && (usedIdent[p.Id] || seen[p.Id]) {
						clash = true
					}
					seen[p.Id] = true
				}
				if !clash {
					break
				}
				// perturb: change key / iface
				if len(r.As) > 0 {
					r.As[0] = (r.As[0] + 1) % NI
					if len(r.As) > 1 {
						r.As = r.As[:1]
					}
				}
				for j := range r.Outs {
					if r.Outs[j].T.IsIface() && r.Outs[j].Group == "" {
						r.Outs[j].Key = keyPool[(tries+j)%len(keyPool)]
						r.Outs[j].T = ifaceRef((int(r.Outs[j].T) - NT - ND + 1) % NI)
					}
				}
				if tries > 3 && len(r.As) > 0 {
					r.Name = keyPool[tries%len(keyPool)]
					r.Group = ""
				}
			}
		}
		if !wantDup {
			clash := false
			seen := map[Ident]bool{}
			for _, p := range regIdents(r) {
				if p.Id.Group == "" && (usedIdent[p.Id] || seen[p.Id]) {
					clash = true
				}
				seen[p.Id] = true
			}
			if clash {
				continue // pool exhausted: drop this registration rather than create a duplicate
			}
		}
		// dependencies
		r.ParamObj = g.p(StCfg, o.PParamObj)
		ndeps := g.n(StCfg, o.MaxDeps+1)
		if r.Form == FInstance {
			ndeps = 0
			r.ParamObj = false
		}
		for j := 0; j < ndeps; j++ {
			switch {
			case g.p(StCfg, o.PBuiltinDep):
				d := Dep{Builtin: 1 + g.n(StCfg, 3)}
				if r.ParamObj && g.p(StCfg, 300) {
					d.Optional = true // optional:"true" on a built-in: there always is one, so it is filled in
				}
				r.Deps = append(r.Deps, d)
			case r.ParamObj && g.p(StCfg, o.PIgnored):
				r.Deps = append(r.Deps, Dep{T: TypeRef(g.n(StCfg, NT+ND)), Ignore: true})
			case r.ParamObj && g.p(StCfg, o.POptionalMissing):
				// optional dependency on a type nobody registers (taken from the unused end of the pool)
				r.Deps = append(r.Deps, Dep{T: TypeRef(NT - 1 - g.n(StCfg, 2)), Optional: true})
			default:
				// candidates among earlier identities, lifetime-legal
				var cands []avail
				for _, a := range idents {
					if r.Life != LScoped && a.life == LScoped {
						continue
					}
					if !r.ParamObj && (a.group || a.id.Key != "") {
						continue
					}
					if a.group && !g.p(StCfg, o.PGroupDep) {
						continue
					}
					cands = append(cands, a)
				}
				if len(cands) == 0 {
					continue
				}
				a := cands[g.n(StCfg, len(cands))]
				d := Dep{T: a.id.T, Key: a.id.Key}
				if a.group {
					d.Group = a.id.Group
					d.Key = ""
				}
				if r.ParamObj && !a.group && g.p(StCfg, o.POptionalReg) {
					d.Optional = true
				}
				if r.ParamObj && !a.group && a.id.T.IsEmbeddable() {
					dupEmbed := false
					for _, x := range r.Deps {
						if x.Embed && x.T == a.id.T {
							dupEmbed = true
						}
					}
					if !dupEmbed && g.p(StCfg, 650) {
						d.Embed = true
					}
				}
				r.Deps = append(r.Deps, d)
			}
		}
		if staticKindApplicable(r) && g.p(StCfg, o.PStaticKind) {
			r.FuncKind = 1 + g.n(StCfg, 2)
		}
		if len(r.As) == 2 && r.Group != "" && g.p(StCfg, o.PAliasSkew) {
			// one more member in the group of the first interface only: the two
			// interfaces' group positions of r differ
			ct := TypeRef(g.n(StCfg, NT-2))
			if g.p(StCfg, 500) {
				ct = TypeRef(NT + g.n(StCfg, ND))
			}
			pre := &Reg{ID: len(c.Regs), Life: r.Life, Form: FSingle, Outs: []Out{{T: ct, Concrete: ct}}, As: []int{r.As[0]}, Group: r.Group}
			c.Regs = append(c.Regs, pre)
			gid := Ident{T: ifaceRef(r.As[0]), Group: r.Group}
			found := false
			for k := range idents {
				if idents[k].group && idents[k].id == gid {
					found = true
					if pre.Life == LScoped {
						idents[k].life = LScoped
					}
				}
			}
			if !found {
				idents = append(idents, avail{id: gid, reg: pre.ID, life: pre.Life, group: true})
			}
			r.ID = len(c.Regs)
		}
		c.Regs = append(c.Regs, r)
		for _, p := range regIdents(r) {
			if p.Id.Group != "" {
				// group identity: lifetime = "scoped" if any member is scoped
				gid := Ident{T: p.Id.T, Group: p.Id.Group}
				found := false
				for k := range idents {
					if idents[k].group && idents[k].id == gid {
						found = true
						if r.Life == LScoped {
							idents[k].life = LScoped
						}
					}
				}
				if !found {
					idents = append(idents, avail{id: gid, reg: r.ID, life: r.Life, group: true})
				}
			} else if !usedIdent[p.Id] {
				usedIdent[p.Id] = true
				idents = append(idents, avail{id: p.Id, reg: r.ID, life: r.Life})
			}
		}
	}
	// a group's lifetime is only known once all members exist: drop group
	// dependencies of non-scoped services whose group later gained a scoped member
	m := buildModel(c)
	for _, r := range c.Regs {
		if r.Life == LScoped {
			continue
		}
		kept := r.Deps[:0]
		for _, d := range r.Deps {
			bad := false
			if d.Group != "" {
				for _, p := range m.Reg.Groups[Ident{T: d.T, Group: d.Group}] {
					if c.Regs[p.Reg].Life == LScoped {
						bad = true
					}
				}
			}
			if !bad {
				kept = append(kept, d)
			}
		}
		r.Deps = kept
	}
	g.seedDefects(c)
	g.excludeShapes(c)
	g.shuffleRegs(c)
	return c
}

// shuffleRegs permutes the order of the registration calls (the relative order
// of registrations that are group members is kept, it is part of the
// configuration). Registration ids are unchanged.
func (g *gen) shuffleRegs(c *Config) {
	if !g.p(StCfg, g.o.PShuffleRegs) || len(c.Regs) < 2 {
		return
	}
	n := len(c.Regs)
	perm := make([]*Reg, n)
	copy(perm, c.Regs)
	for i := n - 1; i > 0; i-- {
		j := g.n(StCfg, i+1)
		perm[i], perm[j] = perm[j], perm[i]
	}
	var slots []int
	var members []*Reg
	for pos, r := range perm {
		grouped := false
		for _, p := range regIdents(r) {
			if p.Id.Group != "" {
				grouped = true
			}
		}
		if grouped {
			slots = append(slots, pos)
			members = append(members, r)
		}
	}
	for i := 1; i < len(members); i++ {
		for j := i; j > 0 && members[j].ID < members[j-1].ID; j-- {
			members[j], members[j-1] = members[j-1], members[j]
		}
	}
	for k, pos := range slots {
		perm[pos] = members[k]
	}
	c.Regs = perm
}

// seedDefects adds, with the configured probabilities, a back edge (cycle),
// a captive dependency, or a missing required dependency.
func (g *gen) seedDefects(c *Config) {
	o := g.o
	n := len(c.Regs)
	if g.p(StCfg, o.PCycle) && n > 0 {
		m := buildModel(c)
		i := g.n(StCfg, n)
		r := c.Regs[i]
		// targets: identities of registrations that depend on r (or r itself)
		var cands []Provision
		for _, p := range m.Reg.Order {
			if p.Reg == r.ID || m.dependsOn(p.Reg, r.ID) {
				cands = append(cands, p)
			}
		}
		if len(cands) > 0 && r.Form != FInstance {
			p := cands[g.n(StCfg, len(cands))]
			d := Dep{T: p.Id.T, Key: p.Id.Key, Group: p.Id.Group}
			if d.Key != "" || d.Group != "" {
				r.ParamObj = true
			}
			if g.p(StCfg, 300) {
				// the back edge is an optional parameter-object field
				r.ParamObj = true
				d.Optional = true
			}
			r.Deps = append(r.Deps, d)
		}
	}
	if g.p(StCfg, o.PCaptive) && n > 1 {
		m := buildModel(c)
		var scoped []Provision
		for _, p := range m.Reg.Order {
			if c.Regs[p.Reg].Life == LScoped {
				scoped = append(scoped, p)
			}
		}
		var holders []*Reg
		for _, r := range c.Regs {
			if r.Life != LScoped && r.Form != FInstance {
				holders = append(holders, r)
			}
		}
		if len(scoped) > 0 && len(holders) > 0 {
			p := scoped[g.n(StCfg, len(scoped))]
			r := holders[g.n(StCfg, len(holders))]
			d := Dep{T: p.Id.T, Key: p.Id.Key, Group: p.Id.Group}
			if d.Key != "" || d.Group != "" {
				r.ParamObj = true
			}
			if g.p(StCfg, 300) {
				r.ParamObj = true
				d.Optional = true
			}
			r.Deps = append(r.Deps, d)
		}
	}
	if g.p(StCfg, o.PMissing) && n > 0 {
		r := c.Regs[g.n(StCfg, n)]
		if r.Form != FInstance {
			d := Dep{T: TypeRef(NT - 1 - g.n(StCfg, 2))}
			if g.p(StCfg, 300) {
				d.Key = keyPool[g.n(StCfg, len(keyPool))]
				r.ParamObj = true
			}
			r.Deps = append(r.Deps, d)
		}
	}
}

// excludeShapes removes shapes owned by other properties' known findings.
func (g *gen) excludeShapes(c *Config) {
	o := g.o
	for pass := 0; pass < 4; pass++ {
		m := buildModel(c)
		changed := false
		for _, r := range c.Regs {
			kept := r.Deps[:0]
			for _, d := range r.Deps {
				drop := false
				t := m.Reg.target(d)
				if d.Group != "" {
					if o.NoGroupCycle {
						for _, p := range t.Members {
							if p.Reg == r.ID || m.dependsOn(p.Reg, r.ID) {
								drop = true
							}
						}
					}
					if o.NoGroupWithDeps && r.Life == LSingleton {
						for _, p := range t.Members {
							if len(m.Adj[p.Reg]) > 0 {
								drop = true
							}
						}
					}
				}
				if o.NoScopedInitSingle && (r.Form == FVoid || r.Form == FVoidErr) && r.Life == LScoped {
					for _, p := range t.Members {
						if c.Regs[p.Reg].Life == LSingleton {
							drop = true
						}
					}
				}
				if o.NoOptionalFail && (o.FaultBudget[1]+o.FaultBudget[2]+o.FaultBudget[3] > 0) && d.Optional && !t.Missing && !t.Builtin && d.Group == "" {
					// owned by C15's known finding: an optional field swallows the
					// failure of a registered service. Elsewhere such edges are required.
					d.Optional = false
				}
				if drop {
					changed = true
				} else {
					kept = append(kept, d)
				}
			}
			r.Deps = kept
		}
		if !changed {
			break
		}
	}
}

// ---------------------------------------------------------------------------
// Programs.

// genPrograms draws the client programs. Task 0 starts with Build; every
// other client first waits for the build. A last client ("fin") waits for
// all others and then closes the provider.
func (g *gen) genPrograms(m *Model) [][]Op {
	o := g.o
	nt := o.MinTasks
	if o.MaxTasks > o.MinTasks {
		nt += g.n(StOps, o.MaxTasks-o.MinTasks+1)
	}
	var idents []Ident
	var groups []Ident
	for _, p := range m.Reg.Order {
		if p.Id.Group == "" {
			idents = append(idents, p.Id)
		}
	}
	seenG := map[Ident]bool{}
	for _, p := range m.Reg.Order {
		if p.Id.Group != "" {
			gk := Ident{T: p.Id.T, Group: p.Id.Group}
			if !seenG[gk] {
				seenG[gk] = true
				groups = append(groups, gk)
			}
		}
	}
	focus := len(idents) > 0 && g.p(StOps, o.PFocus)
	var focusId Ident
	focusH := 0
	if focus {
		focusId = idents[g.n(StOps, len(idents))]
		focusH = g.n(StOps, 3)
	}
	progs := make([][]Op, nt)
	for ti := 0; ti < nt; ti++ {
		if ti == 0 {
			progs[ti] = append(progs[ti], Op{Kind: OpBuild})
		} else {
			progs[ti] = append(progs[ti], Op{Kind: OpWaitBuilt})
		}
		if ti == 0 && g.p(StOps, o.PTree) {
			// scope-tree template: h1 = scope on the provider, h2.. = its children
			k := 2 + g.n(StOps, 2)
			progs[ti] = append(progs[ti], Op{Kind: OpCreateScope, HSel: 0, CtxKind: g.n(StOps, nCtxKinds)})
			for c := 0; c < k; c++ {
				progs[ti] = append(progs[ti], Op{Kind: OpCreateScope, HSel: 1, CtxKind: g.n(StOps, nCtxKinds)})
			}
			var own []Ident
			for _, p := range m.Reg.Order {
				if p.Id.Group == "" && m.regs[p.Reg].Life != LSingleton {
					own = append(own, p.Id)
				}
			}
			if len(own) > 0 {
				for c := 0; c <= k; c++ {
					if g.p(StOps, 800) {
						progs[ti] = append(progs[ti], Op{Kind: OpResolve, HSel: 1 + c, Id: own[g.n(StOps, len(own))]})
					}
				}
			}
			if g.p(StOps, 300) {
				progs[ti] = append(progs[ti], Op{Kind: OpClose, HSel: 2 + g.n(StOps, k)})
			}
			progs[ti] = append(progs[ti], Op{Kind: OpClose, HSel: 1})
		}
		treeRun := len(progs[0]) > 2 && progs[0][1].Kind == OpCreateScope && o.PTree > 0
		nops := 1 + g.n(StOps, o.MaxOps)
		for j := 0; j < nops; j++ {
			k := g.weighted(StOps, o.WOp[:])
			op := Op{Kind: k, HSel: g.n(StOps, 6)}
			if ti > 0 && treeRun && g.p(StOps, 500) {
				// the other clients work on the template's parent scope h1 while client 0 closes it:
				// child creation (inheriting h1's context), resolutions, cancellation
				op.HSel = 1
				switch g.n(StOps, 5) {
				case 0, 1:
					op.Kind = OpCreateScope
					op.CtxKind = []int{CtxNil, CtxFromScope, CtxNil}[g.n(StOps, 3)]
					progs[ti] = append(progs[ti], op)
					continue
				case 2:
					op.Kind = OpCancel
					progs[ti] = append(progs[ti], op)
					continue
				case 3:
					// ... or close / cancel one of h1's children: a descendant in the middle of its own
					// disposal at the moment client 0 closes the parent
					op.HSel = 2 + g.n(StOps, 2)
					op.Kind = OpClose
					if g.p(StOps, 300) {
						op.Kind = OpCancel
					}
					progs[ti] = append(progs[ti], op)
					continue
				}
			}
			switch k {
			case OpResolve:
				if len(idents) == 0 || g.p(StOps, o.PProbeUnregistered) {
					op.Id = g.probeIdent()
				} else {
					op.Id = idents[g.n(StOps, len(idents))]
				}
				if focus && g.p(StOps, 800) {
					op.Id, op.HSel = focusId, focusH
				}
			case OpResolveGroup:
				if len(groups) == 0 || g.p(StOps, o.PProbeUnregistered) {
					op.Id = Ident{T: TypeRef(g.n(StOps, NT+ND+NI)), Group: groupPool[g.n(StOps, len(groupPool))]}
				} else {
					op.Id = groups[g.n(StOps, len(groups))]
				}
			case OpCreateScope:
				op.CtxKind = g.n(StOps, nCtxKinds)
			}
			progs[ti] = append(progs[ti], op)
		}
	}
	if o.PIntKeyProbe > 0 {
		for _, gk := range groups {
			if g.p(StOps, o.PIntKeyProbe) {
				progs[0] = append(progs[0], Op{Kind: OpResolve, HSel: g.n(StOps, 3), Id: Ident{T: gk.T, Key: fmt.Sprintf("int:%d", 1+g.n(StOps, 2))}})
			}
		}
	}
	if g.p(StOps, o.PCloseStorm) {
		for ti := range progs {
			progs[ti] = append(progs[ti], Op{Kind: OpClose, HSel: 0})
		}
	}
	return progs
}

func (g *gen) probeIdent() Ident {
	id := Ident{T: TypeRef(g.n(StOps, NT+ND+NI))}
	if g.p(StOps, 400) {
		id.Key = keyPool[g.n(StOps, len(keyPool))]
	}
	return id
}

// genFaults draws the static fault plan.
func (g *gen) genFaults(c *Config) []*Fault {
	o := g.o
	nf := g.weighted(StFault, o.FaultBudget[:])
	var fs []*Fault
	if ov := g.t.Override; ov != nil {
		nf = 1 + len(g.t.More)
	}
	for i := 0; i < nf && len(c.Regs) > 0; i++ {
		f := &Fault{Kind: g.weighted(StFault, o.WFault[:])}
		f.Reg = c.Regs[g.n(StFault, len(c.Regs))].ID
		f.N = g.n(StFault, 3)
		f.PanicKind = g.n(StFault, 5)
		if ov := g.t.Override; ov != nil {
			if i > 0 {
				ov = &g.t.More[i-1]
			}
			f.Kind, f.Reg, f.N, f.PanicKind = ov.Kind, ov.Reg, ov.N, ov.PanicKind
		}
		f.Err = &sentinelErr{Site: fmt.Sprintf("r%d#%d/%s", f.Reg, f.N, faultNames[f.Kind])}
		switch f.PanicKind {
		case 0:
			f.PanicVal = "boom:" + f.Err.Site
		case 1:
			f.PanicVal = error(f.Err)
		case 2:
			f.PanicVal = 4200 + i
		case 3:
			f.PanicVal = panicStruct{f.Reg, f.N}
		case 4:
			f.PanicVal = nil
		}
		fs = append(fs, f)
	}
	if g.t.Override == nil && g.p(StFault, o.PBuildCtx) {
		fs = append(fs, &Fault{Kind: FBuildCancel, Reg: -1, N: buildCtxOnly, Err: &sentinelErr{Site: "build-context"}})
	} else if g.t.Override == nil && g.p(StFault, o.PBuildCancel) {
		f := &Fault{Kind: FBuildCancel, Reg: -1, N: g.n(StFault, 6)}
		f.Err = &sentinelErr{Site: fmt.Sprintf("build-cancel@ctor#%d", f.N)}
		fs = append(fs, f)
	}
	return fs
}
