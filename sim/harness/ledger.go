package main

import (
	"errors"
	"fmt"
)

// ---------------------------------------------------------------------------
// Ledger: everything the oracles look at. All mutation happens from the task
// that holds the scheduler token, inside //go:norace functions and without
// growing slices or touching maps (the token hand-off is hidden from the race
// detector on purpose, see simrt).

const (
	maxInsts = 1 << 14
	maxInvs  = 1 << 14
	maxEvts  = 1 << 16
)

type inster interface{ inst() *Inst }

// Inst is embedded in every pool service type.
type Inst struct {
	ID          int
	Reg         int
	OutIdx      int
	Inv         int // invocation id (-1: user-created instance value)
	CreatedSeq  int
	closeCount  int
	closeSeq    [4]int
	closeTask   [4]int
	wrongCloses int
	closeErr    error // injected: returned by Close
	h           *H
}

func (i *Inst) inst() *Inst { return i }

//go:norace
func (i *Inst) doClose() error {
	h := i.h
	if h == nil {
		return nil
	}
	return h.onClose(i)
}

//go:norace
func (i *Inst) wrongClose() { i.wrongCloses++ }

const (
	ArgInst = iota
	ArgNil
	ArgSlice
	ArgCtx
	ArgScope
	ArgProvider
	ArgZero // ignored / zero field
	ArgOther
)

type ArgRec struct {
	Kind   int
	Insts  []int // ArgInst: one id; ArgSlice: element ids
	Handle int   // ArgScope/ArgCtx: harness handle id of the scope (or -1 unknown, -2 root scope)
	Ptr    any   // ArgScope/ArgCtx/ArgProvider: the value itself, for identity checks
}

const (
	OutOK = iota
	OutErr
	OutPanic
	OutNil
	OutRunning
)

type Invocation struct {
	ID       int
	Reg      int
	N        int // n-th invocation of this registration (0-based)
	Task     int
	Op       int // global op id in whose extent it ran (-1 none)
	EnterSeq int
	ExitSeq  int
	Outcome  int
	Fault    *Fault
	Args     []ArgRec
	Outs     []int // inst ids
	SharedOuts int // outputs that are the very object of an earlier output (Reg.SameObj)
}

const (
	EvOpStart = iota
	EvOpEnd
	EvCtorEnter
	EvCtorExit
	EvCloseEnter
	EvCloseExit
	EvCancel
)

type Event struct {
	Seq  int
	Kind int
	Task int
	Op   int
	Inv  int
	Inst int
}

// Violation is what an oracle rule reports.
type Violation struct {
	Prop  string `json:"property"`
	Rule  string `json:"rule"`
	Shape string `json:"shape"`
	Msg   string `json:"message"`
}

func (v Violation) String() string {
	return fmt.Sprintf("%s %s shape=%s: %s", v.Prop, v.Rule, v.Shape, v.Msg)
}

// harness trouble: the checker could not classify something. Exit 2, never a violation.
type troubleErr struct{ msg string }

func (t troubleErr) Error() string { return "INCONCLUSIVE-HARNESS: " + t.msg }

func trouble(format string, a ...any) {
	panic(troubleErr{fmt.Sprintf(format, a...)})
}

var errSentinelBase = errors.New("sentinel")

// sentinelErr is the unique error a failing constructor / Close returns.
type sentinelErr struct {
	Site string
}

func (s *sentinelErr) Error() string { return "injected failure at " + s.Site }

// wrapErr: a constructor's own typed error that wraps a cause.
type wrapErr struct {
	Msg   string
	Inner error
}

func (w *wrapErr) Error() string { return w.Msg + ": " + w.Inner.Error() }
func (w *wrapErr) Unwrap() error { return w.Inner }
