package main

import (
	"fmt"
	"sort"
	"strings"

	"github.com/junioryono/godi/v4/simrt"
)

// permEngine (C06): one registration set, M permutations of the registration
// calls (relative order of group members preserved) x N rebuilds, each build
// under a fresh simulator-chosen map-iteration order. All builds must agree on
// the verdict and, when they succeed, wire an isomorphic object graph.
type permEngine struct{}

func (e *permEngine) Name() string { return "build-permutation-sim" }

type permCase struct {
	Cfg   *Config
	Perms [][]int
	N     int
}

func (c *permCase) Describe() map[string]any {
	return map[string]any{"engine": "build-permutation-sim", "registrations": c.Cfg.Strings(), "permutations": c.Perms, "rebuilds_per_permutation": c.N}
}

func permGen(tier string) GenOpts {
	o := defaultGen()
	o.MaxRegs = 7
	o.WLife = [3]int{6, 2, 2}
	o.PGroup, o.PGroupDep, o.PParamObj, o.PName, o.PAs = 350, 600, 650, 250, 250
	o.POptionalMissing = 150
	o.PCycle, o.PCaptive, o.PMissing = 120, 120, 120
	o.NoGroupCycle = false
	o.NoGroupWithDeps = false
	o.NoScopedInitSingle = false
	o.PVoid = 100
	o.MaxDeps = 3
	o.PShuffleRegs = 0
	if tier == "thorough" {
		o.MaxRegs = 9
	}
	return o
}

func decodePermCase(tier string, idx int, tape *Tape) *permCase {
	o := permGen(tier)
	g := &gen{t: tape, o: &o}
	c := &permCase{Cfg: g.genConfig()}
	n := len(c.Cfg.Regs)
	M := 3 + tape.Choose(StOps, 6)
	c.N = 4 + tape.Choose(StOps, 13)
	if tier != "thorough" {
		if c.N > 8 {
			c.N = 4 + c.N%5
		}
	}
	grouped := map[int]bool{}
	for _, r := range c.Cfg.Regs {
		for _, p := range regIdents(r) {
			if p.Id.Group != "" {
				grouped[r.ID] = true
			}
		}
	}
	for m := 0; m < M; m++ {
		perm := make([]int, n)
		for i := range perm {
			perm[i] = i
		}
		switch {
		case m == 0:
			// identity
		case m == 1:
			for i, j := 0, n-1; i < j; i, j = i+1, j-1 {
				perm[i], perm[j] = perm[j], perm[i]
			}
		default:
			for i := n - 1; i > 0; i-- {
				j := tape.Choose(StOps, i+1)
				perm[i], perm[j] = perm[j], perm[i]
			}
		}
		// restore the relative order of registrations that are group members
		var slots, members []int
		for pos, id := range perm {
			if grouped[id] {
				slots = append(slots, pos)
				members = append(members, id)
			}
		}
		sort.Ints(members)
		for k, pos := range slots {
			perm[pos] = members[k]
		}
		c.Perms = append(c.Perms, perm)
	}
	return c
}

func (e *permEngine) Run(prop, tier string, idx int, tape *Tape) *RunOut {
	c := decodePermCase(tier, idx, tape)
	return e.exec(c, tape)
}

func (e *permEngine) exec(c *permCase, tape *Tape) *RunOut {
	out := &RunOut{Faults: map[string]int{}, Reach: map[string]int{}}
	base := buildModel(c.Cfg)
	// probe program: build, then resolve every identity and group from the provider
	var prog []Op
	prog = append(prog, Op{Kind: OpBuild})
	var ids []Ident
	for _, p := range base.Reg.Order {
		if p.Id.Group == "" {
			ids = append(ids, p.Id)
		}
	}
	seenG := map[Ident]bool{}
	var groups []Ident
	for _, p := range base.Reg.Order {
		gk := Ident{T: p.Id.T, Group: p.Id.Group}
		if p.Id.Group != "" && !seenG[gk] {
			seenG[gk] = true
			groups = append(groups, gk)
		}
	}
	for _, id := range ids {
		prog = append(prog, Op{Kind: OpResolve, Id: id})
	}
	for _, gk := range groups {
		prog = append(prog, Op{Kind: OpResolveGroup, Id: gk})
	}
	type result struct {
		perm, n int
		class   string
		canon   string
		err     string
	}
	var results []result
	var vs []Violation
	for pi, perm := range c.Perms {
		cfg := &Config{}
		for _, id := range perm {
			cfg.Regs = append(cfg.Regs, c.Cfg.Regs[id])
		}
		for n := 0; n < c.N; n++ {
			cs := &Case{Prop: "C06", Cfg: cfg, Progs: [][]Op{prog}}
			h := runCase(cs, tape)
			out.Steps += h.sim.Steps()
			out.SchedHash = out.SchedHash*1099511628211 ^ h.sim.Hash()
			out.Reach["sim.map_perms"] += h.sim.MapPerms
			out.Reach["builds"]++
			a := analyse(h)
			for _, v := range a.evaluate() {
				if v.Prop == "C06" {
					vs = append(vs, v)
				}
			}
			for _, t := range h.sim.Tasks() {
				if t.Client && t.Panic != nil {
					if te, ok := t.Panic.(troubleErr); ok {
						panic(te)
					}
					trouble("client task panicked in harness code: %v\n%s", t.Panic, t.Stack)
				}
			}
			r := result{perm: pi, n: n}
			if a.buildOp != nil {
				_, cls := classify(a.buildOp.Err)
				var names []string
				for _, x := range cls {
					if x == ECircular || x == ELifetime || x == ENotFound || x == EAlready {
						names = append(names, errClassNames[x])
					}
				}
				if a.buildOp.Err == nil {
					names = []string{"ok"}
				} else if len(names) == 0 {
					names = []string{"other-error"}
				}
				if a.buildOp.Panic != nil {
					names = []string{"panic"}
				}
				r.class = strings.Join(names, "+")
				r.err = firstLine(a.buildOp.Err)
			}
			if a.buildOK {
				r.canon = canonGraph(h, a)
			}
			results = append(results, r)
		}
	}
	if len(results) > 0 {
		first := results[0]
		for _, r := range results[1:] {
			if r.class != first.class {
				// which of two simultaneous defects is reported is not prescribed: compare ok / not-ok,
				// and the class only when the model has exactly one defect kind
				okA, okB := first.class == "ok", r.class == "ok"
				single := (b2i(base.V.Cycle) + b2i(base.V.Conflict) + b2i(base.V.Missing)) <= 1
				if okA != okB || single {
					vs = append(vs, Violation{Prop: "C06", Rule: "C06.verdict", Shape: verdictShape(base),
						Msg: fmt.Sprintf("Build verdict depends on registration order / iteration order: permutation %d build %d -> %s (%s); permutation %d build %d -> %s (%s)",
							first.perm, first.n, first.class, first.err, r.perm, r.n, r.class, r.err)})
					break
				}
			}
			if r.class == "ok" && first.class == "ok" && r.canon != first.canon {
				vs = append(vs, Violation{Prop: "C06", Rule: "C06.iso", Shape: verdictShape(base),
					Msg: fmt.Sprintf("successful builds wire different object graphs:\n  permutation %d build %d: %s\n  permutation %d build %d: %s", first.perm, first.n, first.canon, r.perm, r.n, r.canon)})
				break
			}
		}
		out.Class = first.class
	}
	out.Violations = vs
	out.Describe = c.Describe()
	out.CaseHash = hashStr(fmt.Sprint(c.Cfg.Strings()))
	edges := 0
	for _, r := range c.Cfg.Regs {
		edges += len(r.Deps)
	}
	out.NonTrivial = edges > 0
	return out
}

func b2i(b bool) int {
	if b {
		return 1
	}
	return 0
}

func verdictShape(m *Model) string {
	a := &Analysis{m: m}
	return m.V.Class() + "/" + a.cfgShape()
}

// canonGraph: identity -> producing registration -> recursively its arguments.
func canonGraph(h *H, a *Analysis) string {
	memo := map[int]string{}
	var canon func(id int, depth int) string
	canon = func(id int, depth int) string {
		if id < 0 {
			return "nil"
		}
		if s, ok := memo[id]; ok {
			return s
		}
		in := h.insts[id]
		s := fmt.Sprintf("r%d.%d", in.Reg, in.OutIdx)
		if in.Inv >= 0 && depth < 12 {
			inv := h.invs[in.Inv]
			var args []string
			for _, ar := range inv.Args {
				switch ar.Kind {
				case ArgInst:
					args = append(args, canon(ar.Insts[0], depth+1))
				case ArgSlice:
					var el []string
					for _, x := range ar.Insts {
						el = append(el, canon(x, depth+1))
					}
					args = append(args, "["+strings.Join(el, ",")+"]")
				case ArgNil:
					args = append(args, "nil")
				default:
					args = append(args, "_")
				}
			}
			s += "(" + strings.Join(args, ",") + ")"
		}
		memo[id] = s
		return s
	}
	var parts []string
	for _, op := range a.ops {
		if op.Op.Kind != OpResolve && op.Op.Kind != OpResolveGroup {
			continue
		}
		if op.Err != nil {
			parts = append(parts, fmt.Sprintf("%s=ERR:%s", op.Op.Id, errClassNames[op.Class]))
			continue
		}
		var el []string
		for _, x := range op.Insts {
			el = append(el, canon(x, 0))
		}
		parts = append(parts, fmt.Sprintf("%s=%s", op.Op.Id, strings.Join(el, ",")))
	}
	sort.Strings(parts)
	return strings.Join(parts, "; ")
}

func (e *permEngine) runTapes(tier string, idx int, tapes [nStreams][]int32) (*RunOut, *permCase) {
	tape := ReplayTape(tapes)
	c := decodePermCase(tier, idx, tape)
	return e.exec(c, tape), c
}

func (e *permEngine) Replay(rf *ReplayFile) *RunOut {
	out, _ := e.runTapes(rf.Tier, rf.Run, mapToTapes(rf.Tapes))
	return out
}

func (e *permEngine) Minimise(prop, tier string, idx int, tapes [nStreams][]int32, v Violation) *ReplayFile {
	return genericMinimise(e.Name(), prop, tapes, v, func(t [nStreams][]int32) (*RunOut, map[string]any) {
		out, c := e.runTapes(tier, idx, t)
		return out, c.Describe()
	})
}

var _ = simrt.RaceBuild
