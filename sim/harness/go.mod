module verif/harness

go 1.24.6
