package main

import (
	"context"
	"errors"
	"fmt"
	"reflect"
	"strings"
	"sync"
	"sync/atomic"
	"time"

	"github.com/junioryono/godi/v4"
	"github.com/junioryono/godi/v4/simrt"
)

// Harness yield sites (user-code sites).
const (
	siteOpStart = simrt.HarnessSiteBase + iota
	siteOpEnd
	siteCtorEnter
	siteCtorExit
	siteCloseEnter
	siteCloseExit
	siteWait
	siteHandler
	siteMiddleware
)

func init() {
	simrt.RegisterSite(siteOpStart, "harness: op start")
	simrt.RegisterSite(siteOpEnd, "harness: op end")
	simrt.RegisterSite(siteCtorEnter, "harness: constructor enter")
	simrt.RegisterSite(siteCtorExit, "harness: constructor exit")
	simrt.RegisterSite(siteCloseEnter, "harness: Close enter")
	simrt.RegisterSite(siteCloseExit, "harness: Close exit")
	simrt.RegisterSite(siteWait, "harness: wait")
	simrt.RegisterSite(siteHandler, "harness: handler")
	simrt.RegisterSite(siteMiddleware, "harness: middleware")
}

// ---------------------------------------------------------------------------
// Faults.

const (
	FCtorErr = iota
	FCtorPanic
	FCtorNil
	FCloseErr
	FBuildCancel // the context given to BuildWithContext is cancelled when the N-th constructor invocation of the Build is entered
)

// buildCtxOnly: a build-cancel fault position that is never reached.
const buildCtxOnly = 1 << 20

var faultNames = []string{"ctor-error", "ctor-panic", "ctor-nil", "close-error", "build-cancel"}

type Fault struct {
	Kind      int
	Reg       int
	N         int // n-th invocation of Reg (ctor faults) / n-th disposable instance created by Reg (close faults)
	PanicKind int
	Fired     int
	Err       *sentinelErr
	PanicVal  any
	Returned  error // the exact value the failing constructor returned: Err itself or a wrapper around it
}

// returned: what the failing constructor hands back - the bare sentinel, the
// constructor's own typed error wrapping it, or an fmt.Errorf("%w") chain.
//
//go:norace
func (f *Fault) returned() error {
	if f.Returned == nil {
		switch (f.Reg + f.N) % 3 {
		case 1:
			f.Returned = &wrapErr{Msg: "open store", Inner: f.Err}
		case 2:
			f.Returned = fmt.Errorf("load config: %w", error(f.Err))
		default:
			f.Returned = f.Err
		}
	}
	return f.Returned
}

func (f *Fault) String() string {
	if f.Kind == FBuildCancel && f.N == buildCtxOnly {
		return "Build runs as BuildWithContext on a cancellable context that is never cancelled"
	}
	if f.Kind == FBuildCancel {
		return fmt.Sprintf("build-cancel when constructor invocation #%d of the Build is entered", f.N)
	}
	return fmt.Sprintf("%s r%d #%d", faultNames[f.Kind], f.Reg, f.N)
}

type panicStruct struct{ A, B int }

// ---------------------------------------------------------------------------
// Handles.

const (
	HProvider = 0
	HScope    = 1
)

type Handle struct {
	ID        int
	Kind      int
	Prov      godi.Provider
	Scope     godi.Scope
	Parent    int // handle id of the creating handle
	CtxKind   int
	Ctx       *simContext // creation context if harness-owned
	ByTask    int
	ByOp      int
	ScopeCtx  context.Context    // Scope.Context() captured at creation
	StdCancel context.CancelFunc // CtxFromScope: cancel of the derived std context
	CancelSeq int                // sequence number at which the creation context was cancelled (0 = never)
	ValKey    any                // CtxValueOnly: caller key / value carried by the creation context
	ValVal    any
	Detached  bool // CtxValueOnly built over context.WithoutCancel(parent scope context)
}

func (h *Handle) P() godi.Provider {
	if h.Kind == HProvider {
		return h.Prov
	}
	return h.Scope
}

const maxHandles = 256

// ---------------------------------------------------------------------------
// Operations.

const (
	OpBuild = iota
	OpResolve
	OpResolveGroup
	OpCreateScope
	OpClose
	OpCancel
	OpFromContext
	OpWaitBuilt
	OpFinish
)

var opNames = []string{"Build", "Resolve", "ResolveGroup", "CreateScope", "Close", "Cancel", "FromContext", "WaitBuilt", "Finish"}

const (
	CtxNil = iota
	CtxBackground
	CtxFresh     // fresh simulator-owned cancellable context
	CtxValue     // simulator-owned context carrying a caller value
	CtxFromScope // derived (context.WithCancel) from the parent handle's Scope.Context()
	CtxValueOnly // std context carrying a caller value and no cancellation (Done() == nil)
	nCtxKinds
)

type Op struct {
	Kind    int
	HSel    int // handle selector (resolved modulo number of known handles at run time)
	Id      Ident
	CtxKind int
}

func (o Op) String() string {
	switch o.Kind {
	case OpResolve:
		return fmt.Sprintf("Resolve(h%%%d, %s)", o.HSel, o.Id)
	case OpResolveGroup:
		return fmt.Sprintf("ResolveGroup(h%%%d, %s)", o.HSel, o.Id)
	case OpCreateScope:
		return fmt.Sprintf("CreateScope(h%%%d, ctx%d)", o.HSel, o.CtxKind)
	case OpClose, OpCancel, OpFromContext:
		return fmt.Sprintf("%s(h%%%d)", opNames[o.Kind], o.HSel)
	}
	return opNames[o.Kind]
}

const (
	ENone = iota
	ENotFound
	EScopeDisposed
	EProviderDisposed
	ECtorErr
	ECtorPanic
	ECircular
	ELifetime
	EAlready
	ESingletonNotInit
	ENilInstance
	EDisposal
	EOther
)

var errClassNames = []string{"ok", "not-found", "scope-disposed", "provider-disposed", "ctor-error", "ctor-panic", "circular", "lifetime-conflict", "already-registered", "singleton-not-initialized", "nil-instance", "disposal-error", "other"}

type OpResult struct {
	GID             int // global op id
	Task            int
	Idx             int
	Op              Op
	Handle          int // resolved handle id (-1 none)
	NewH            int // handle created (-1)
	StartSeq        int
	EndSeq          int
	Done            bool
	Err             error
	Class           int
	Classes         []int // every class recognisable in the error chain
	Panic           any
	PanicStk        string
	Aborted         string
	Insts           []int // resolved instance ids (group: in order)
	IsNilRes        bool  // (nil, nil) result
	TypedNil        bool  // a typed-nil pointer was returned as a service
	CtxNotCancelled []int // OpCancel: handles whose derived context was not cancelled at once
	Builtin         any   // resolved builtin value
	Sentinel        *sentinelErr
	PanicVal        any
	DisposalN       int
	ViaRoot         bool // issued on the provider's root scope instead of the provider itself
}

// classify an error returned by godi.
func classify(err error) (int, []int) {
	if err == nil {
		return ENone, nil
	}
	var cls []int
	add := func(c int) { cls = append(cls, c) }
	if errors.Is(err, godi.ErrServiceNotFound) {
		add(ENotFound)
	}
	if errors.Is(err, godi.ErrScopeDisposed) {
		add(EScopeDisposed)
	}
	if errors.Is(err, godi.ErrProviderDisposed) {
		add(EProviderDisposed)
	}
	var se *sentinelErr
	if errors.As(err, &se) {
		add(ECtorErr)
	}
	var pe *godi.ConstructorPanicError
	var pev godi.ConstructorPanicError
	if errors.As(err, &pe) || errors.As(err, &pev) {
		add(ECtorPanic)
	}
	var ce *godi.CircularDependencyError
	var cev godi.CircularDependencyError
	if errors.As(err, &ce) || errors.As(err, &cev) {
		add(ECircular)
	}
	var le *godi.LifetimeConflictError
	var lev godi.LifetimeConflictError
	if errors.As(err, &le) || errors.As(err, &lev) {
		add(ELifetime)
	}
	var ae *godi.AlreadyRegisteredError
	var aev godi.AlreadyRegisteredError
	if errors.As(err, &ae) || errors.As(err, &aev) {
		add(EAlready)
	}
	if errors.Is(err, godi.ErrSingletonNotInitialized) {
		add(ESingletonNotInit)
	}
	if strings.Contains(err.Error(), "returned nil instance") {
		add(ENilInstance)
	}
	var de *godi.DisposalError
	var dev godi.DisposalError
	if errors.As(err, &de) || errors.As(err, &dev) {
		add(EDisposal)
	}
	if len(cls) == 0 {
		return EOther, []int{EOther}
	}
	return cls[0], cls
}

func hasClass(cls []int, c int) bool {
	for _, x := range cls {
		if x == c {
			return true
		}
	}
	return false
}

// ---------------------------------------------------------------------------
// H: one simulated case.

type CaseOpts struct {
	Prop string
}

type H struct {
	cfg   *Config
	model *Model
	tape  *Tape
	sim   *simrt.Sim

	seq   int
	insts []*Inst
	invs  []*Invocation
	evts  []Event
	regN  [64]int // invocations per registration
	dispN [64]int // disposable instances created per registration

	faults []*Fault

	slots     [maxHandles]atomic.Pointer[Handle]
	nHandles  atomic.Int32
	built     atomic.Int32 // 0 no, 1 ok, 2 failed
	buildErr  error
	buildCtx  *simContext // context given to BuildWithContext when the case carries a build-cancel fault
	prov      godi.Provider
	rootScope godi.Scope // what the provider hands out as Scope at provider level (after Build)
	coll      godi.Collection
	regErrs   []error // error returned by each Add call (by reg index)

	progs   [][]Op
	results [][]*OpResult
	opGID   int
	curOp   [simrt.MaxTasks]int // task id -> global op id (-1)
	curH    [simrt.MaxTasks]int // task id -> handle id of the current op

	ctxs []*simContext

	clientsDone     atomic.Int32
	nClients        int
	verdict         simrt.Verdict
	allOps          []*OpResult
	opTask          []int // op gid -> scheduler task id
	probes          []Probe
	midLive         int
	endLive         int
	finClosed       bool
	ctxNotCancelled []int

	fns []reflect.Value // constructor function values by reg index
}

func newH(cfg *Config, tape *Tape) *H {
	h := &H{cfg: cfg, tape: tape}
	h.model = buildModel(cfg)
	h.insts = make([]*Inst, 0, maxInsts)
	h.invs = make([]*Invocation, 0, maxInvs)
	h.evts = make([]Event, 0, maxEvts)
	h.ctxs = make([]*simContext, 0, 1024)
	h.allOps = make([]*OpResult, 0, 4096)
	h.opTask = make([]int, 0, 4096)
	for i := range h.curOp {
		h.curOp[i] = -1
		h.curH[i] = -1
	}
	return h
}

//go:norace
func (h *H) nextSeq() int { h.seq++; return h.seq }

//go:norace
func (h *H) event(kind, inv, inst int) int {
	s := h.nextSeq()
	if len(h.evts) >= cap(h.evts) {
		trouble("event log overflow")
	}
	t := simrt.Current()
	tid, op := -1, -1
	if t != nil {
		tid = t.ID
		op = h.curOp[tid]
	}
	h.evts = h.evts[:len(h.evts)+1]
	h.evts[len(h.evts)-1] = Event{Seq: s, Kind: kind, Task: tid, Op: op, Inv: inv, Inst: inst}
	return s
}

//go:norace
func (h *H) addInst(i *Inst) {
	if len(h.insts) >= cap(h.insts) {
		trouble("instance table overflow")
	}
	i.ID = len(h.insts)
	i.h = h
	h.insts = h.insts[:len(h.insts)+1]
	h.insts[i.ID] = i
}

//go:norace
func (h *H) addInv(v *Invocation) {
	if len(h.invs) >= cap(h.invs) {
		trouble("invocation table overflow")
	}
	v.ID = len(h.invs)
	h.invs = h.invs[:len(h.invs)+1]
	h.invs[v.ID] = v
}

//go:norace
func (h *H) onClose(i *Inst) error {
	i.closeCount++
	n := i.closeCount
	s := h.event(EvCloseEnter, -1, i.ID)
	if n <= len(i.closeSeq) {
		i.closeSeq[n-1] = s
		if t := simrt.Current(); t != nil {
			i.closeTask[n-1] = t.ID
		} else {
			i.closeTask[n-1] = -1
		}
	}
	simrt.Yield(siteCloseEnter)
	h.event(EvCloseExit, -1, i.ID)
	if i.closeErr != nil && n == 1 {
		return i.closeErr
	}
	return nil
}

// maybeCancelBuild fires a build-cancel fault: the N-th constructor invocation of
// the Build has just been entered.
//
//go:norace
//go:norace
func (h *H) maybeCancelBuild(inv *Invocation) {
	if h.buildCtx == nil || h.built.Load() != 0 {
		return
	}
	for _, f := range h.faults {
		if f.Kind == FBuildCancel && f.Fired == 0 && f.N == inv.ID {
			f.Fired++
			h.buildCtx.Cancel()
		}
	}
}

func (h *H) faultFor(kind0, kind1, reg, n int) *Fault {
	for _, f := range h.faults {
		if f.Kind >= kind0 && f.Kind <= kind1 && f.Reg == reg && f.N == n {
			f.Fired++
			return f
		}
	}
	return nil
}

// ---------------------------------------------------------------------------
// Constructor synthesis.

var (
	inType    = reflect.TypeOf(godi.In{})
	outType   = reflect.TypeOf(godi.Out{})
	errType   = reflect.TypeOf((*error)(nil)).Elem()
	ctxType   = reflect.TypeOf((*context.Context)(nil)).Elem()
	scopeType = reflect.TypeOf((*godi.Scope)(nil)).Elem()
	provType  = reflect.TypeOf((*godi.Provider)(nil)).Elem()
)

func depType(d Dep) reflect.Type {
	switch d.Builtin {
	case BContext:
		return ctxType
	case BScope:
		return scopeType
	case BProvider:
		return provType
	}
	if d.Group != "" {
		return reflect.SliceOf(d.T.RT())
	}
	return d.T.RT()
}

func depTag(d Dep) reflect.StructTag {
	s := ""
	add := func(k, v string) {
		if s != "" {
			s += " "
		}
		s += k + `:"` + v + `"`
	}
	if d.Key != "" {
		add("name", d.Key)
	}
	if d.Group != "" {
		add("group", d.Group)
	}
	if d.Optional {
		add("optional", "true")
	}
	if d.Ignore {
		add("inject", "-")
	}
	return reflect.StructTag(s)
}

func inStructType(r *Reg) reflect.Type {
	fields := []reflect.StructField{{Name: "In", Type: inType, Anonymous: true}}
	for i, d := range r.Deps {
		if d.Embed {
			fields = append(fields, reflect.StructField{Name: d.T.RT().Elem().Name(), Type: depType(d), Tag: depTag(d), Anonymous: true})
			continue
		}
		fields = append(fields, reflect.StructField{Name: fmt.Sprintf("F%d", i), Type: depType(d), Tag: depTag(d)})
	}
	return reflect.StructOf(fields)
}

func outStructType(r *Reg) reflect.Type {
	fields := []reflect.StructField{{Name: "Out", Type: outType, Anonymous: true}}
	for i, o := range r.Outs {
		tag := ""
		if o.Key != "" {
			tag = `name:"` + o.Key + `"`
		}
		if o.Group != "" {
			if tag != "" {
				tag += " "
			}
			tag += `group:"` + o.Group + `"`
		}
		fields = append(fields, reflect.StructField{Name: fmt.Sprintf("O%d", i), Type: o.T.RT(), Tag: reflect.StructTag(tag)})
	}
	return reflect.StructOf(fields)
}

func funcType(r *Reg) reflect.Type {
	var ins, outs []reflect.Type
	if r.ParamObj {
		ins = []reflect.Type{inStructType(r)}
	} else {
		for _, d := range r.Deps {
			ins = append(ins, depType(d))
		}
	}
	switch r.Form {
	case FSingle, FSingleErr, FMulti, FMultiErr:
		for _, o := range r.Outs {
			outs = append(outs, o.T.RT())
		}
	case FResult, FResultErr:
		outs = []reflect.Type{outStructType(r)}
	}
	switch r.Form {
	case FSingleErr, FMultiErr, FResultErr, FVoidErr:
		outs = append(outs, errType)
	}
	return reflect.FuncOf(ins, outs, false)
}

// makeCtor returns the value to pass to Add* for registration r.
//
//go:norace
func (h *H) makeCtor(r *Reg) any {
	if r.Form == FInstance {
		pv := reflect.New(r.Outs[0].Concrete.RT().Elem())
		in, _ := asInst(pv.Interface())
		in.Reg, in.OutIdx, in.Inv = r.ID, 0, -1
		h.addInst(in)
		in.CreatedSeq = h.nextSeq()
		return pv.Interface()
	}
	if r.FuncKind != KMakeFunc && staticKindApplicable(r) {
		f := factories[r.Outs[0].T.RT()]
		if r.FuncKind == KClosure {
			return f.closure(h, r)
		}
		return f.method(h, r)
	}
	ft := funcType(r)
	fn := reflect.MakeFunc(ft, func(args []reflect.Value) []reflect.Value {
		return h.ctorBody(r, ft, args)
	})
	return fn.Interface()
}

//go:norace
func (h *H) recArgs(r *Reg, args []reflect.Value) []ArgRec {
	recs := make([]ArgRec, len(r.Deps))
	for i, d := range r.Deps {
		var v reflect.Value
		if r.ParamObj {
			v = args[0].Field(i + 1)
		} else {
			v = args[i]
		}
		recs[i] = h.recArg(d, v)
	}
	return recs
}

//go:norace
func (h *H) recArg(d Dep, v reflect.Value) ArgRec {
	switch d.Builtin {
	case BContext, BScope, BProvider:
		if v.IsNil() {
			return ArgRec{Kind: ArgNil}
		}
		k := ArgCtx
		if d.Builtin == BScope {
			k = ArgScope
		} else if d.Builtin == BProvider {
			k = ArgProvider
		}
		return ArgRec{Kind: k, Ptr: v.Interface(), Handle: -1}
	}
	if d.Group != "" {
		rec := ArgRec{Kind: ArgSlice}
		if v.IsNil() {
			rec.Kind = ArgNil
			return rec
		}
		for i := 0; i < v.Len(); i++ {
			e := v.Index(i)
			if isNilDeep(e) {
				rec.Insts = append(rec.Insts, -1)
				continue
			}
			if in, ok := asInst(e.Interface()); ok {
				rec.Insts = append(rec.Insts, in.ID)
			} else {
				rec.Insts = append(rec.Insts, -2)
			}
		}
		return rec
	}
	if isNilDeep(v) {
		return ArgRec{Kind: ArgNil}
	}
	if in, ok := asInst(v.Interface()); ok {
		return ArgRec{Kind: ArgInst, Insts: []int{in.ID}}
	}
	return ArgRec{Kind: ArgOther}
}

// isNilDeep: nil pointer, nil interface, or interface holding a nil pointer.
func isNilDeep(v reflect.Value) bool {
	switch v.Kind() {
	case reflect.Pointer, reflect.Slice, reflect.Map, reflect.Func, reflect.Chan:
		return v.IsNil()
	case reflect.Interface:
		if v.IsNil() {
			return true
		}
		return isNilDeep(v.Elem())
	}
	return false
}

func zeroOuts(ft reflect.Type) []reflect.Value {
	outs := make([]reflect.Value, ft.NumOut())
	for i := range outs {
		outs[i] = reflect.Zero(ft.Out(i))
	}
	return outs
}

//go:norace
func (h *H) ctorBody(r *Reg, ft reflect.Type, args []reflect.Value) []reflect.Value {
	inv := &Invocation{Reg: r.ID, N: h.regN[r.ID], Task: -1, Op: -1, Outcome: OutRunning}
	h.regN[r.ID]++
	if t := simrt.Current(); t != nil {
		inv.Task = t.ID
		inv.Op = h.curOp[t.ID]
	}
	h.addInv(inv)
	h.maybeCancelBuild(inv)
	inv.Args = h.recArgs(r, args)
	inv.EnterSeq = h.event(EvCtorEnter, inv.ID, -1)
	simrt.Yield(siteCtorEnter)
	outs := zeroOuts(ft)
	nilIdx := -1
	f := h.faultFor(FCtorErr, FCtorNil, r.ID, inv.N)
	if f != nil {
		inv.Fault = f
		switch f.Kind {
		case FCtorPanic:
			inv.Outcome = OutPanic
			inv.ExitSeq = h.event(EvCtorExit, inv.ID, -1)
			panic(f.PanicVal)
		case FCtorErr:
			if ft.NumOut() > 0 && ft.Out(ft.NumOut()-1) == errType {
				inv.Outcome = OutErr
				inv.ExitSeq = h.event(EvCtorExit, inv.ID, -1)
				outs[len(outs)-1] = reflect.ValueOf(f.returned()).Convert(errType)
				return outs
			}
			// no error result: degrade to panic with the sentinel error
			inv.Outcome = OutPanic
			f.PanicVal = error(f.Err)
			inv.ExitSeq = h.event(EvCtorExit, inv.ID, -1)
			panic(f.PanicVal)
		case FCtorNil:
			if len(r.Outs) < 2 || (inv.N+r.ID)%2 == 1 {
				inv.Outcome = OutNil
				inv.ExitSeq = h.event(EvCtorExit, inv.ID, -1)
				return outs
			}
			// several outputs: only one of them is nil, the others are real instances
			nilIdx = (inv.N + r.ID/2) % len(r.Outs)
		}
	}
	// build outputs
	var made []reflect.Value
	for i := range r.Outs {
		if i == nilIdx {
			made = append(made, reflect.Zero(r.Outs[i].T.RT()))
			continue
		}
		if r.SameObj && i > 0 && r.Outs[i].T.IsIface() {
			// one object under two results, e.g. func() (*Impl, Iface) { x := &Impl{}; return x, x }
			shared := false
			for k := 0; k < i; k++ {
				if k != nilIdx && made[k].Type().AssignableTo(r.Outs[i].T.RT()) {
					made = append(made, made[k])
					inv.SharedOuts++
					shared = true
					break
				}
			}
			if shared {
				continue
			}
		}
		made = append(made, h.newOut(r, i, inv))
	}
	switch r.Form {
	case FSingle, FSingleErr, FMulti, FMultiErr:
		for i := range r.Outs {
			outs[i] = made[i].Convert(r.Outs[i].T.RT())
		}
	case FResult, FResultErr:
		sv := reflect.New(ft.Out(0)).Elem()
		for i := range r.Outs {
			sv.Field(i + 1).Set(made[i].Convert(r.Outs[i].T.RT()))
		}
		outs[0] = sv
	}
	simrt.Yield(siteCtorExit)
	inv.Outcome = OutOK
	if nilIdx >= 0 {
		inv.Outcome = OutNil
	}
	inv.ExitSeq = h.event(EvCtorExit, inv.ID, -1)
	return outs
}

//go:norace
func (h *H) newOut(r *Reg, i int, inv *Invocation) reflect.Value {
	o := r.Outs[i]
	pv := reflect.New(o.Concrete.RT().Elem())
	in, _ := asInst(pv.Interface())
	h.adoptOut(r, i, inv, in)
	return pv
}

// adoptOut enters a freshly allocated instance into the ledger as output i of inv.
//
//go:norace
func (h *H) adoptOut(r *Reg, i int, inv *Invocation, in *Inst) {
	o := r.Outs[i]
	in.Reg, in.OutIdx, in.Inv = r.ID, i, inv.ID
	h.addInst(in)
	in.CreatedSeq = h.nextSeq()
	if o.Concrete.IsDisp() {
		n := h.dispN[r.ID]
		h.dispN[r.ID]++
		if f := h.faultFor(FCloseErr, FCloseErr, r.ID, n); f != nil {
			in.closeErr = f.Err
		}
	}
	inv.Outs = append(inv.Outs, in.ID)
}

// enterInv / exitInv: invocation bookkeeping for constructors without arguments.
//
//go:norace
func (h *H) enterInv(r *Reg) *Invocation {
	inv := &Invocation{Reg: r.ID, N: h.regN[r.ID], Task: -1, Op: -1, Outcome: OutRunning}
	h.regN[r.ID]++
	if t := simrt.Current(); t != nil {
		inv.Task = t.ID
		inv.Op = h.curOp[t.ID]
	}
	h.addInv(inv)
	h.maybeCancelBuild(inv)
	inv.EnterSeq = h.event(EvCtorEnter, inv.ID, -1)
	simrt.Yield(siteCtorEnter)
	return inv
}

//go:norace
func (h *H) exitInv(inv *Invocation) {
	simrt.Yield(siteCtorExit)
	inv.Outcome = OutOK
	inv.ExitSeq = h.event(EvCtorExit, inv.ID, -1)
}

// ---------------------------------------------------------------------------
// Registration.

var asOpts = []godi.AddOption{godi.As[I0](), godi.As[I1](), godi.As[I2](), godi.As[I3]()}

//go:norace
func (h *H) regOpts(r *Reg) []godi.AddOption {
	var opts []godi.AddOption
	if r.Name != "" {
		opts = append(opts, godi.Name(r.Name))
	}
	if r.Group != "" {
		opts = append(opts, godi.Group(r.Group))
	}
	for _, a := range r.As {
		opts = append(opts, asOpts[a])
	}
	return opts
}

//go:norace
func (h *H) addReg(c godi.Collection, r *Reg) error {
	fn := h.makeCtor(r)
	opts := h.regOpts(r)
	switch r.Life {
	case LSingleton:
		return c.AddSingleton(fn, opts...)
	case LScoped:
		return c.AddScoped(fn, opts...)
	default:
		return c.AddTransient(fn, opts...)
	}
}

// ---------------------------------------------------------------------------
// Contexts owned by the harness.

type simContext struct {
	id           int
	parent       context.Context
	mu           sync.Mutex
	done         chan struct{}
	err          error
	afters       []func()
	live         []bool
	Registered   int
	Stopped      int
	key, val     any
	failedCreate bool
}

type ctxKey struct{ n int }

//go:norace
func (h *H) newCtx(parent context.Context, key, val any) *simContext {
	c := &simContext{id: len(h.ctxs), parent: parent, done: make(chan struct{}), key: key, val: val}
	if len(h.ctxs) >= cap(h.ctxs) {
		trouble("context table overflow")
	}
	h.ctxs = h.ctxs[:len(h.ctxs)+1]
	h.ctxs[c.id] = c
	return c
}

func (c *simContext) Deadline() (deadline time.Time, ok bool) { return time.Time{}, false }
func (c *simContext) Done() <-chan struct{}                   { return c.done }
func (c *simContext) Err() error {
	c.mu.Lock()
	defer c.mu.Unlock()
	return c.err
}
func (c *simContext) Value(k any) any {
	if c.key != nil && k == c.key {
		return c.val
	}
	if c.parent != nil {
		return c.parent.Value(k)
	}
	return nil
}

// AfterFunc makes context.WithCancel(c) register synchronously instead of
// starting a goroutine; registrations are counted for the leak oracle.
func (c *simContext) AfterFunc(f func()) (stop func() bool) {
	c.mu.Lock()
	if c.err != nil {
		c.mu.Unlock()
		f()
		return func() bool { return false }
	}
	idx := len(c.afters)
	c.afters = append(c.afters, f)
	c.live = append(c.live, true)
	c.Registered++
	c.mu.Unlock()
	return func() bool {
		c.mu.Lock()
		defer c.mu.Unlock()
		if c.live[idx] {
			c.live[idx] = false
			c.afters[idx] = nil
			c.Stopped++
			return true
		}
		return false
	}
}

func (c *simContext) Cancel() {
	c.mu.Lock()
	if c.err != nil {
		c.mu.Unlock()
		return
	}
	c.err = context.Canceled
	close(c.done)
	var fs []func()
	for i, f := range c.afters {
		if c.live[i] {
			c.live[i] = false
			fs = append(fs, f)
		}
	}
	c.mu.Unlock()
	for _, f := range fs {
		f()
	}
}

// Attached returns the number of AfterFunc registrations still attached.
func (c *simContext) Attached() int {
	c.mu.Lock()
	defer c.mu.Unlock()
	n := 0
	for _, l := range c.live {
		if l {
			n++
		}
	}
	return n
}
