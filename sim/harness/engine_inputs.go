package main

import (
	"context"
	"errors"
	"fmt"
	"reflect"
	"runtime/debug"
	"time"
	"unsafe"

	"github.com/junioryono/godi/v4"
	"github.com/junioryono/godi/v4/simrt"
)

// inputsEngine: every exported entry point with nil / zero / unregistered /
// mismatched arguments (C15.nopanic, C15.classes, C15.must) and every
// registration form that would put a built-in type into the registry
// (C18.reserved). Inputs only: no schedule decides these; they run inside one
// simulated task so that Build sees simulator-chosen map orders, and pool
// choices (types, keys, nesting depth) come from the tape.
type inputsEngine struct{}

func (e *inputsEngine) Name() string { return "api-inputs-sim" }

type expect int

const (
	xAny   expect = iota // must not panic
	xErr                 // must return an error, must not panic
	xOK                  // must succeed
	xPanic               // Must* helper: must panic
)

type inputCase struct {
	Name string
	Want expect
	// Class: if non-zero the returned error must be recognisable as this class
	Class int
	Prop  string // owning property: C15 or C18
	Rule  string
	Run   func() error
}

type inResult struct {
	name string
}

type unimplemented interface{ neverImplemented() }

type inParams2a struct {
	godi.In
	A *T0
}
type inParams2b struct {
	godi.In
	B *T1
}
type namedIn struct {
	In godi.In
	A  *T0
}
type outPtr struct {
	godi.Out
	A *T0
}
type outWithProvider struct {
	godi.Out
	A *T0
	P godi.Provider
}
type outWithCtx struct {
	godi.Out
	C context.Context `name:"k0"`
}
type unexportedIn struct {
	godi.In
	a *T0
	B *T1 `inject:"-"`
}
type keyStruct struct{ A, B int }

type fakeProvider struct{ godi.Provider }

func (f *fakeProvider) Close() error { return nil }

func t0() *T0 { return &T0{} }
func t1() *T1 { return &T1{} }

func buildInputCases(tape *Tape) []inputCase {
	var cs []inputCase
	add := func(prop, rule, name string, want expect, class int, run func() error) {
		cs = append(cs, inputCase{Name: name, Want: want, Class: class, Prop: prop, Rule: rule, Run: run})
	}
	k := keyPool[tape.Choose(StCfg, len(keyPool))]
	g := groupPool[tape.Choose(StCfg, len(groupPool))]
	tT := reflect.TypeOf((*T0)(nil))
	tU := reflect.TypeOf((*T5)(nil)) // never registered below
	depth := 1 + tape.Choose(StCfg, 4)
	keys := []any{k, 7, keyStruct{1, 2}, int64(3), true, 'x', 1.5, [2]int{1, 2}, &keyStruct{}}
	key := keys[tape.Choose(StCfg, len(keys))]

	newProv := func() (godi.Provider, error) {
		c := godi.NewCollection()
		if err := c.AddSingleton(t0); err != nil {
			return nil, err
		}
		if err := c.AddScoped(t1, godi.Name(k)); err != nil {
			return nil, err
		}
		if err := c.AddTransient(func() *T2 { return &T2{} }, godi.Group(g)); err != nil {
			return nil, err
		}
		return c.Build()
	}
	withProv := func(f func(p godi.Provider, s godi.Scope) error) func() error {
		return func() error {
			p, err := newProv()
			if err != nil {
				return fmt.Errorf("setup: %w", err)
			}
			defer p.Close()
			s, err := p.CreateScope(nil)
			if err != nil {
				return fmt.Errorf("setup: %w", err)
			}
			defer s.Close()
			return f(p, s)
		}
	}
	// --- resolution entry points with bad arguments
	for _, onScope := range []bool{false, true} {
		on := "provider"
		if onScope {
			on = "scope"
		}
		pick := func(p godi.Provider, s godi.Scope) godi.Provider {
			if onScope {
				return s
			}
			return p
		}
		add("C15", "C15.nopanic", on+".Get(nil type)", xErr, 0, withProv(func(p godi.Provider, s godi.Scope) error { _, e := pick(p, s).Get(nil); return e }))
		add("C15", "C15.nopanic", on+".GetKeyed(nil type)", xErr, 0, withProv(func(p godi.Provider, s godi.Scope) error { _, e := pick(p, s).GetKeyed(nil, key); return e }))
		add("C15", "C15.nopanic", on+".GetKeyed(nil key)", xErr, 0, withProv(func(p godi.Provider, s godi.Scope) error { _, e := pick(p, s).GetKeyed(tT, nil); return e }))
		add("C15", "C15.nopanic", on+".GetGroup(empty group)", xErr, 0, withProv(func(p godi.Provider, s godi.Scope) error { _, e := pick(p, s).GetGroup(tT, ""); return e }))
		add("C15", "C15.nopanic", on+".GetGroup(nil type)", xErr, 0, withProv(func(p godi.Provider, s godi.Scope) error { _, e := pick(p, s).GetGroup(nil, g); return e }))
		add("C15", "C15.classes", on+".Get(unregistered)", xErr, ENotFound, withProv(func(p godi.Provider, s godi.Scope) error { _, e := pick(p, s).Get(tU); return e }))
		add("C15", "C15.classes", on+".GetKeyed(unregistered key)", xErr, ENotFound, withProv(func(p godi.Provider, s godi.Scope) error { _, e := pick(p, s).GetKeyed(tT, key); return e }))
		add("C15", "C15.nopanic", on+".GetGroup(unregistered group)", xOK, 0, withProv(func(p godi.Provider, s godi.Scope) error {
			v, e := pick(p, s).GetGroup(tU, g)
			if e == nil && len(v) != 0 {
				return fmt.Errorf("expected empty group, got %d", len(v))
			}
			return e
		}))
		add("C15", "C15.nopanic", on+".CreateScope(nil ctx)", xOK, 0, withProv(func(p godi.Provider, s godi.Scope) error {
			c, e := pick(p, s).CreateScope(nil)
			if e == nil {
				c.Close()
			}
			return e
		}))
		add("C15", "C15.nopanic", on+".CreateScope(cancelled ctx)", xAny, 0, withProv(func(p godi.Provider, s godi.Scope) error {
			ctx, cancel := context.WithCancel(context.Background())
			cancel()
			c, e := pick(p, s).CreateScope(ctx)
			if e == nil {
				c.Close()
			}
			return e
		}))
	}
	// --- generic helpers
	add("C15", "C15.nopanic", "Resolve[T](nil provider)", xErr, 0, func() error { _, e := godi.Resolve[*T0](nil); return e })
	add("C15", "C15.nopanic", "ResolveKeyed[T](nil provider)", xErr, 0, func() error { _, e := godi.ResolveKeyed[*T0](nil, key); return e })
	add("C15", "C15.nopanic", "ResolveGroup[T](nil provider)", xErr, 0, func() error { _, e := godi.ResolveGroup[*T0](nil, g); return e })
	add("C15", "C15.nopanic", "ResolveKeyed[T](nil key)", xErr, 0, withProv(func(p godi.Provider, s godi.Scope) error { _, e := godi.ResolveKeyed[*T0](p, nil); return e }))
	add("C15", "C15.nopanic", "ResolveGroup[T](empty group)", xErr, 0, withProv(func(p godi.Provider, s godi.Scope) error { _, e := godi.ResolveGroup[*T0](p, ""); return e }))
	add("C15", "C15.classes", "Resolve[T](unregistered)", xErr, ENotFound, withProv(func(p godi.Provider, s godi.Scope) error { _, e := godi.Resolve[*T5](s); return e }))
	add("C15", "C15.nopanic", "Resolve[T](registered)", xOK, 0, withProv(func(p godi.Provider, s godi.Scope) error { _, e := godi.Resolve[*T0](s); return e }))
	add("C15", "C15.nopanic", "Resolve[I](type mismatch: interface nobody registered)", xErr, 0, withProv(func(p godi.Provider, s godi.Scope) error { _, e := godi.Resolve[I0](s); return e }))
	add("C15", "C15.must", "MustResolve[T](unregistered) panics", xPanic, 0, withProv(func(p godi.Provider, s godi.Scope) error { godi.MustResolve[*T5](s); return nil }))
	add("C15", "C15.must", "MustResolve[T](registered) does not panic", xOK, 0, withProv(func(p godi.Provider, s godi.Scope) error { godi.MustResolve[*T0](s); return nil }))
	add("C15", "C15.must", "MustResolveKeyed[T](unregistered key) panics", xPanic, 0, withProv(func(p godi.Provider, s godi.Scope) error { godi.MustResolveKeyed[*T0](s, key); return nil }))
	add("C15", "C15.must", "MustResolveKeyed[T](registered) does not panic", xOK, 0, withProv(func(p godi.Provider, s godi.Scope) error { godi.MustResolveKeyed[*T1](s, k); return nil }))
	add("C15", "C15.must", "MustResolveGroup[T](empty group name) panics", xPanic, 0, withProv(func(p godi.Provider, s godi.Scope) error { godi.MustResolveGroup[*T2](s, ""); return nil }))
	add("C15", "C15.must", "MustResolveGroup[T](registered) does not panic", xOK, 0, withProv(func(p godi.Provider, s godi.Scope) error { godi.MustResolveGroup[*T2](s, g); return nil }))
	add("C15", "C15.must", "MustResolve[T](nil provider) panics", xPanic, 0, func() error { godi.MustResolve[*T0](nil); return nil })
	// --- FromContext
	add("C15", "C15.nopanic", "FromContext(nil)", xErr, 0, func() error { _, e := godi.FromContext(nil); return e })
	add("C15", "C15.nopanic", "FromContext(background)", xErr, 0, func() error { _, e := godi.FromContext(context.Background()); return e })
	// --- disposed classes
	add("C15", "C15.classes", "Get after scope Close", xErr, EScopeDisposed, withProv(func(p godi.Provider, s godi.Scope) error { s.Close(); _, e := s.Get(tT); return e }))
	add("C15", "C15.classes", "CreateScope after scope Close", xErr, EScopeDisposed, withProv(func(p godi.Provider, s godi.Scope) error { s.Close(); _, e := s.CreateScope(nil); return e }))
	add("C15", "C15.classes", "Resolve[T] after scope Close", xErr, EScopeDisposed, withProv(func(p godi.Provider, s godi.Scope) error { s.Close(); _, e := godi.Resolve[*T0](s); return e }))
	add("C15", "C15.classes", "GetGroup after scope Close", xErr, EScopeDisposed, withProv(func(p godi.Provider, s godi.Scope) error {
		s.Close()
		_, e := s.GetGroup(reflect.TypeOf((*T2)(nil)), g)
		return e
	}))
	add("C15", "C15.classes", "Get after provider Close", xErr, EProviderDisposed, withProv(func(p godi.Provider, s godi.Scope) error { p.Close(); _, e := p.Get(tT); return e }))
	add("C15", "C15.classes", "CreateScope after provider Close", xErr, EProviderDisposed, withProv(func(p godi.Provider, s godi.Scope) error { p.Close(); _, e := p.CreateScope(nil); return e }))
	add("C15", "C15.classes", "scope use after provider Close", xErr, EScopeDisposed, withProv(func(p godi.Provider, s godi.Scope) error { p.Close(); _, e := s.Get(tT); return e }))
	// --- registration with unusual values
	coll := func(f func(c godi.Collection) error) func() error {
		return func() error { return f(godi.NewCollection()) }
	}
	var nilFunc func() *T0
	var nilPtr *T0
	add("C15", "C15.nopanic", "AddSingleton(nil)", xErr, 0, coll(func(c godi.Collection) error { return c.AddSingleton(nil) }))
	add("C15", "C15.nopanic", "AddScoped(typed-nil func)", xErr, 0, coll(func(c godi.Collection) error { return c.AddScoped(nilFunc) }))
	add("C15", "C15.nopanic", "AddTransient(typed-nil pointer)", xErr, 0, coll(func(c godi.Collection) error { return c.AddTransient(nilPtr) }))
	add("C15", "C15.nopanic", "Add(int value)+Build+resolve", xAny, 0, coll(func(c godi.Collection) error {
		if e := c.AddSingleton(42); e != nil {
			return e
		}
		p, e := c.Build()
		if e != nil {
			return e
		}
		defer p.Close()
		_, e = godi.Resolve[int](p)
		return e
	}))
	add("C15", "C15.nopanic", "Add(struct value)+Build+resolve", xAny, 0, coll(func(c godi.Collection) error {
		if e := c.AddScoped(keyStruct{1, 2}); e != nil {
			return e
		}
		p, e := c.Build()
		if e != nil {
			return e
		}
		defer p.Close()
		_, e = godi.Resolve[keyStruct](p)
		return e
	}))
	add("C15", "C15.nopanic", "nil option among options", xAny, 0, coll(func(c godi.Collection) error { return c.AddSingleton(t0, nil, godi.Name(k), nil) }))
	add("C15", "C15.nopanic", "Name+Group", xErr, 0, coll(func(c godi.Collection) error { return c.AddSingleton(t0, godi.Name(k), godi.Group(g)) }))
	add("C15", "C15.nopanic", "backquoted name", xErr, 0, coll(func(c godi.Collection) error { return c.AddSingleton(t0, godi.Name("a`b")) }))
	add("C15", "C15.nopanic", "backquoted group", xErr, 0, coll(func(c godi.Collection) error { return c.AddSingleton(t0, godi.Group("a`b")) }))
	add("C15", "C15.nopanic", "As[non-interface]", xErr, 0, coll(func(c godi.Collection) error { return c.AddSingleton(t0, godi.As[int]()) }))
	add("C15", "C15.nopanic", "As[unimplemented interface]", xErr, 0, coll(func(c godi.Collection) error { return c.AddSingleton(t0, godi.As[unimplemented]()) }))
	add("C15", "C15.nopanic", "variadic constructor", xAny, 0, coll(func(c godi.Collection) error {
		if e := c.AddSingleton(func(xs ...*T0) *T1 { return &T1{} }); e != nil {
			return e
		}
		_, e := c.Build()
		return e
	}))
	add("C15", "C15.nopanic", "constructor whose error result has a concrete, non-nillable type (errno style), singleton", xAny, 0, coll(func(c godi.Collection) error {
		if e := c.AddSingleton(func() (*T1, inputErrno) { return &T1{}, 0 }); e != nil {
			return e
		}
		p, e := c.Build()
		if e == nil {
			_, e = p.Get(reflect.TypeOf((*T1)(nil)))
			p.Close()
		}
		return e
	}))
	add("C15", "C15.nopanic", "constructor whose error result has a concrete, non-nillable type (errno style), scoped, failing", xAny, 0, coll(func(c godi.Collection) error {
		if e := c.AddScoped(func() (*T1, inputErrno) { return nil, 5 }); e != nil {
			return e
		}
		p, e := c.Build()
		if e == nil {
			_, e = p.Get(reflect.TypeOf((*T1)(nil)))
			p.Close()
		}
		return e
	}))
	add("C15", "C15.nopanic", "constructor returning a channel", xErr, 0, coll(func(c godi.Collection) error { return c.AddSingleton(func() chan int { return nil }) }))
	add("C15", "C15.nopanic", "constructor returning unsafe.Pointer", xErr, 0, coll(func(c godi.Collection) error { return c.AddSingleton(func() unsafe.Pointer { return nil }) }))
	add("C15", "C15.nopanic", "constructor taking a channel", xErr, 0, coll(func(c godi.Collection) error { return c.AddSingleton(func(ch chan int) *T0 { return &T0{} }) }))
	add("C15", "C15.nopanic", "two In parameters", xAny, 0, coll(func(c godi.Collection) error {
		if e := c.AddSingleton(func(a inParams2a, b inParams2b) *T2 { return &T2{} }); e != nil {
			return e
		}
		_, e := c.Build()
		return e
	}))
	add("C15", "C15.nopanic", "In by pointer", xAny, 0, coll(func(c godi.Collection) error {
		c.AddSingleton(t0)
		if e := c.AddSingleton(func(a *inParams2a) *T2 { return &T2{} }); e != nil {
			return e
		}
		p, e := c.Build()
		if e == nil {
			p.Close()
		}
		return e
	}))
	add("C15", "C15.nopanic", "Out by pointer (nil result object)", xAny, 0, coll(func(c godi.Collection) error {
		if e := c.AddSingleton(func() *outPtr { return nil }); e != nil {
			return e
		}
		p, e := c.Build()
		if e == nil {
			p.Close()
		}
		return e
	}))
	add("C15", "C15.nopanic", "named (not embedded) In field", xAny, 0, coll(func(c godi.Collection) error {
		if e := c.AddSingleton(func(a namedIn) *T2 { return &T2{} }); e != nil {
			return e
		}
		_, e := c.Build()
		return e
	}))
	add("C15", "C15.nopanic", "unexported and ignored In fields stay zero", xOK, 0, coll(func(c godi.Collection) error {
		var got unexportedIn
		if e := c.AddSingleton(func(a unexportedIn) *T2 { got = a; return &T2{} }); e != nil {
			return e
		}
		p, e := c.Build()
		if e != nil {
			return e
		}
		p.Close()
		if got.a != nil || got.B != nil {
			return errors.New("unexported / ignored field was populated")
		}
		return nil
	}))
	add("C15", "C15.nopanic", "hashable keys of several kinds", xOK, 0, coll(func(c godi.Collection) error {
		if e := c.AddSingleton(t0); e != nil {
			return e
		}
		p, e := c.Build()
		if e != nil {
			return e
		}
		defer p.Close()
		for _, kk := range keys {
			if _, e := p.GetKeyed(tT, kk); e == nil {
				return fmt.Errorf("key %v resolved", kk)
			} else if !errors.Is(e, godi.ErrServiceNotFound) {
				return fmt.Errorf("key %v: %w", kk, e)
			}
		}
		return nil
	}))
	add("C15", "C15.nopanic", "queries with nil type", xOK, 0, coll(func(c godi.Collection) error {
		c.Remove(nil)
		c.RemoveKeyed(nil, key)
		if c.Contains(nil) || c.ContainsKeyed(nil, key) {
			return errors.New("Contains(nil) is true")
		}
		c.RemoveKeyed(tT, nil)
		c.ContainsKeyed(tT, nil)
		return nil
	}))
	add("C15", "C15.nopanic", "AddModules(nil, module with nil entries)", xOK, 0, coll(func(c godi.Collection) error {
		return c.AddModules(nil, godi.NewModule("m", nil, godi.AddSingleton(t0), nil), nil)
	}))
	add("C15", "C15.nopanic", "BuildWithContext(nil)", xOK, 0, coll(func(c godi.Collection) error {
		c.AddSingleton(t0)
		p, e := c.BuildWithContext(nil)
		if e == nil {
			p.Close()
		}
		return e
	}))
	add("C15", "C15.nopanic", "BuildWithOptions(nil)", xOK, 0, coll(func(c godi.Collection) error {
		c.AddSingleton(t0)
		p, e := c.BuildWithOptions(nil)
		if e == nil {
			p.Close()
		}
		return e
	}))
	add("C15", "C15.nopanic", "BuildWithOptions(timeout)", xOK, 0, coll(func(c godi.Collection) error {
		c.AddSingleton(t0)
		p, e := c.BuildWithOptions(&godi.ProviderOptions{BuildTimeout: time.Hour})
		if e == nil {
			p.Close()
		}
		return e
	}))
	add("C15", "C15.nopanic", "BuildWithContext(cancelled)", xErr, 0, coll(func(c godi.Collection) error {
		c.AddSingleton(t0)
		ctx, cancel := context.WithCancel(context.Background())
		cancel()
		_, e := c.BuildWithContext(ctx)
		return e
	}))
	add("C15", "C15.nopanic", "empty collection builds", xOK, 0, coll(func(c godi.Collection) error {
		p, e := c.Build()
		if e == nil {
			e = p.Close()
		}
		return e
	}))
	// --- error classes through Build / module wrappers
	wrapMods := func(inner godi.ModuleOption) godi.ModuleOption {
		m := inner
		for i := 0; i < depth; i++ {
			m = godi.NewModule(fmt.Sprintf("m%d", i), nil, m)
		}
		return m
	}
	add("C15", "C15.classes", "already-registered through nested modules", xErr, EAlready, coll(func(c godi.Collection) error {
		if e := c.AddSingleton(t0); e != nil {
			return fmt.Errorf("setup: %w", e)
		}
		return c.AddModules(wrapMods(godi.AddScoped(t0)))
	}))
	add("C15", "C15.classes", "already-registered keyed", xErr, EAlready, coll(func(c godi.Collection) error {
		if e := c.AddSingleton(t0, godi.Name(k)); e != nil {
			return fmt.Errorf("setup: %w", e)
		}
		return c.AddModules(wrapMods(godi.AddSingleton(t0, godi.Name(k))))
	}))
	add("C15", "C15.classes", "already-registered multi-return", xErr, EAlready, coll(func(c godi.Collection) error {
		if e := c.AddSingleton(t1); e != nil {
			return fmt.Errorf("setup: %w", e)
		}
		return c.AddSingleton(func() (*T0, *T1) { return &T0{}, &T1{} })
	}))
	add("C15", "C15.classes", "circular through Build", xErr, ECircular, coll(func(c godi.Collection) error {
		c.AddModules(wrapMods(godi.AddSingleton(func(b *T1) *T0 { return &T0{} })))
		c.AddScoped(func(a *T0) *T1 { return &T1{} })
		_, e := c.Build()
		return e
	}))
	add("C15", "C15.classes", "lifetime conflict through Build", xErr, ELifetime, coll(func(c godi.Collection) error {
		c.AddModules(wrapMods(godi.AddScoped(t1)))
		c.AddSingleton(func(b *T1) *T0 { return &T0{} })
		_, e := c.Build()
		return e
	}))
	add("C15", "C15.classes", "missing dependency through Build", xErr, ENotFound, coll(func(c godi.Collection) error {
		c.AddSingleton(func(b *T1) *T0 { return &T0{} })
		_, e := c.Build()
		return e
	}))
	// --- C18.reserved: built-in types cannot be registered, in any form
	resv := func(name string, f func(c godi.Collection) error) {
		add("C18", "C18.reserved", name, xErr, 0, coll(func(c godi.Collection) error {
			if e := f(c); e != nil {
				return e
			}
			p, e := c.Build()
			if e == nil {
				p.Close()
			}
			return e
		}))
	}
	sctx := &simContext{done: make(chan struct{})}
	resv("func() context.Context", func(c godi.Collection) error {
		return c.AddSingleton(func() context.Context { return context.Background() })
	})
	resv("func() godi.Scope", func(c godi.Collection) error { return c.AddScoped(func() godi.Scope { return nil }) })
	resv("func() godi.Provider", func(c godi.Collection) error { return c.AddTransient(func() godi.Provider { return nil }) })
	resv("func() (godi.Provider, error)", func(c godi.Collection) error {
		return c.AddSingleton(func() (godi.Provider, error) { return nil, nil })
	})
	resv("multi-return member context.Context", func(c godi.Collection) error {
		return c.AddSingleton(func() (*T0, context.Context) { return &T0{}, context.Background() })
	})
	resv("multi-return first member godi.Scope", func(c godi.Collection) error {
		return c.AddScoped(func() (godi.Scope, *T0) { return nil, &T0{} })
	})
	resv("result-object field godi.Provider", func(c godi.Collection) error {
		return c.AddSingleton(func() outWithProvider { return outWithProvider{A: &T0{}} })
	})
	resv("result-object named field context.Context", func(c godi.Collection) error {
		return c.AddSingleton(func() outWithCtx { return outWithCtx{C: context.Background()} })
	})
	resv("As[context.Context]", func(c godi.Collection) error {
		return c.AddSingleton(func() *simContext { return sctx }, godi.As[context.Context]())
	})
	resv("As[godi.Provider]", func(c godi.Collection) error {
		return c.AddSingleton(func() *fakeProvider { return &fakeProvider{} }, godi.As[godi.Provider]())
	})
	resv("instance value As[context.Context]", func(c godi.Collection) error {
		return c.AddSingleton(sctx, godi.As[context.Context]())
	})
	resv("keyed context.Context", func(c godi.Collection) error {
		return c.AddSingleton(func() context.Context { return context.Background() }, godi.Name(k))
	})
	resv("grouped godi.Scope", func(c godi.Collection) error {
		return c.AddScoped(func() godi.Scope { return nil }, godi.Group(g))
	})
	// and the built-ins themselves resolve everywhere
	add("C18", "C18.inject", "direct Resolve of the three built-ins", xOK, 0, withProv(func(p godi.Provider, s godi.Scope) error {
		c, e := godi.Resolve[context.Context](s)
		if e != nil || c != s.Context() {
			return fmt.Errorf("Resolve[context.Context] = %v, %v", c, e)
		}
		sc, e := godi.Resolve[godi.Scope](s)
		if e != nil || sc != s {
			return fmt.Errorf("Resolve[Scope] = %v, %v", sc, e)
		}
		pr, e := godi.Resolve[godi.Provider](s)
		if e != nil || pr != p {
			return fmt.Errorf("Resolve[Provider] = %v, %v", pr, e)
		}
		if s.Provider() != p {
			return errors.New("scope.Provider() is not the provider")
		}
		ch, e := s.CreateScope(nil)
		if e != nil {
			return e
		}
		defer ch.Close()
		sc2, e := godi.Resolve[godi.Scope](ch)
		if e != nil || sc2 != ch {
			return fmt.Errorf("child Resolve[Scope] = %v, %v", sc2, e)
		}
		if fs, e := godi.FromContext(ch.Context()); e != nil || fs != ch {
			return fmt.Errorf("FromContext(child ctx) = %v, %v", fs, e)
		}
		dctx, cancel := context.WithCancel(ch.Context())
		defer cancel()
		if fs, e := godi.FromContext(context.WithValue(dctx, keyStruct{}, 1)); e != nil || fs != ch {
			return fmt.Errorf("FromContext(derived ctx) = %v, %v", fs, e)
		}
		if _, e := s.GetKeyed(reflect.TypeOf((*context.Context)(nil)).Elem(), key); e == nil {
			return errors.New("keyed request for context.Context resolved")
		}
		return nil
	}))
	return cs
}

func (e *inputsEngine) Run(prop, tier string, idx int, tape *Tape) *RunOut {
	return e.exec(tape)
}

func (e *inputsEngine) exec(tape *Tape) *RunOut {
	out := &RunOut{Faults: map[string]int{}, Reach: map[string]int{}}
	godi.SimResetCounters()
	cases := buildInputCases(tape)
	// every run executes a tape-chosen window of the table plus one full sweep per 16 runs
	start := tape.Choose(StOps, len(cases))
	n := 8 + tape.Choose(StOps, 12)
	if tape.Choose(StOps, 16) == 0 {
		start, n = 0, len(cases)
	}
	var vs []Violation
	var ran []string
	sim := simrt.New(simrt.Config{Draw: func(stream, n int) int { return tape.Choose(StSched+stream, n) }})
	sim.AddClient("inputs", nil, func(t *simrt.Task) {
		for i := 0; i < n; i++ {
			simrt.BeginOp()
			c := cases[(start+i)%len(cases)]
			ran = append(ran, c.Name)
			var err error
			var pan any
			var stk string
			func() {
				defer func() {
					if r := recover(); r != nil {
						if a, ok := r.(*simrt.Abort); ok {
							panic(a)
						}
						pan = r
						stk = string(debug.Stack())
					}
				}()
				err = c.Run()
			}()
			add := func(f string, a ...any) {
				vs = append(vs, Violation{Prop: c.Prop, Rule: c.Rule, Shape: c.Name, Msg: fmt.Sprintf(f, a...)})
			}
			switch {
			case c.Want == xPanic:
				if pan == nil {
					add("%s: the Must* helper did not panic (err=%v)", c.Name, err)
				}
			case pan != nil:
				add("%s: panicked: %v\n%s", c.Name, pan, stackHead(stk))
				if c.Prop != "C15" {
					vs = append(vs, Violation{Prop: "C15", Rule: "C15.nopanic", Shape: c.Name, Msg: fmt.Sprintf("%s: panicked: %v", c.Name, pan)})
				}
			case err != nil && len(err.Error()) > 6 && err.Error()[:6] == "setup:":
				trouble("input case %q: %v", c.Name, err)
			case c.Want == xErr && err == nil:
				add("%s: expected an error, got nil", c.Name)
			case c.Want == xOK && err != nil:
				add("%s: expected success, got %v", c.Name, firstLine(err))
			case c.Class != 0 && err != nil:
				if _, cls := classify(err); !hasClass(cls, c.Class) {
					add("%s: error is not recognisable as %s with errors.Is/As: %v", c.Name, errClassNames[c.Class], firstLine(err))
				}
			}
		}
	})
	v := sim.Run()
	for _, t := range sim.Tasks() {
		if t.Panic != nil {
			if te, ok := t.Panic.(troubleErr); ok {
				panic(te)
			}
			trouble("inputs task panicked in harness code: %v\n%s", t.Panic, t.Stack)
		}
	}
	if v.Stuck {
		vs = append(vs, Violation{Prop: "C15", Rule: "C15.nopanic", Shape: "stuck", Msg: "inputs task could make no progress"})
	}
	out.Violations = vs
	out.Steps = sim.Steps()
	out.SchedHash = sim.Hash()
	out.Describe = map[string]any{"engine": "api-inputs-sim", "calls": ran}
	out.CaseHash = hashStr(fmt.Sprint(ran, tape.st[StCfg].vals))
	out.NonTrivial = true
	out.Reach["input-calls"] += len(ran)
	return out
}

func (e *inputsEngine) Replay(rf *ReplayFile) *RunOut {
	return e.exec(ReplayTape(mapToTapes(rf.Tapes)))
}

func (e *inputsEngine) Minimise(prop, tier string, idx int, tapes [nStreams][]int32, v Violation) *ReplayFile {
	return genericMinimise(e.Name(), prop, tapes, v, func(t [nStreams][]int32) (*RunOut, map[string]any) {
		out := e.exec(ReplayTape(t))
		return out, out.Describe
	})
}

// inputErrno: an error type that is not an interface, pointer or other nillable kind.
type inputErrno uintptr

func (e inputErrno) Error() string { return fmt.Sprintf("errno %d", uintptr(e)) }
