package main

import (
	"fmt"
	"reflect"
	"strings"
)

// ---------------------------------------------------------------------------
// Case description as data: registrations, dependencies, outputs.

type TypeRef int // index into poolTypes

func (t TypeRef) RT() reflect.Type { return poolTypes[t] }
func (t TypeRef) String() string   { return poolNames[t] }
func (t TypeRef) IsIface() bool    { return int(t) >= NT+ND && int(t) < NT+ND+NI }
func (t TypeRef) IsDisp() bool     { return int(t) >= NT && int(t) < NT+ND }
func ifaceRef(k int) TypeRef       { return TypeRef(NT + ND + k) }

const (
	LSingleton = 0
	LScoped    = 1
	LTransient = 2
)

var lifeNames = []string{"singleton", "scoped", "transient"}

const (
	FSingle    = iota // func(...) *T
	FSingleErr        // func(...) (*T, error)
	FMulti            // func(...) (*A, *B[, *C])
	FMultiErr         // func(...) (*A, *B, error)
	FResult           // func(...) R        (R embeds godi.Out)
	FResultErr        // func(...) (R, error)
	FVoid             // func(...)
	FVoidErr          // func(...) error
	FInstance         // a value, not a function
)

var formNames = []string{"single", "single+err", "multi", "multi+err", "result", "result+err", "void", "void+err", "instance"}

const (
	BNone     = 0
	BContext  = 1
	BScope    = 2
	BProvider = 3
)

type Dep struct {
	T        TypeRef // element type for group deps
	Key      string
	Group    string
	Optional bool
	Builtin  int
	Ignore   bool // param-object field tagged inject:"-"
	Embed    bool // param-object field embedded (anonymous) next to godi.In
}

func (d Dep) String() string {
	opt := ""
	if d.Optional {
		opt = "?"
	}
	switch d.Builtin {
	case BContext:
		return "ctx" + opt
	case BScope:
		return "scope" + opt
	case BProvider:
		return "provider" + opt
	}
	s := d.T.String()
	if d.Key != "" {
		s += "#" + d.Key
	}
	if d.Group != "" {
		s = "[]" + s + "@" + d.Group
	}
	if d.Optional {
		s += "?"
	}
	if d.Ignore {
		s += "(ignored)"
	}
	if d.Embed {
		s += "(embedded)"
	}
	return s
}

type Out struct {
	T        TypeRef // declared (static) type of the output
	Concrete TypeRef // dynamic type created (== T unless T is an interface)
	Key      string  // result-object field tag
	Group    string  // result-object field tag
}

type Reg struct {
	ID       int
	Life     int
	Form     int
	Outs     []Out
	Name     string // godi.Name option
	Group    string // godi.Group option
	As       []int  // godi.As[I_k] options
	ParamObj bool
	Deps     []Dep
	FuncKind int  // 0 reflect.MakeFunc; others see funcs.go
	Removed  bool // C17: removed after registration
	SameObj  bool // an interface-typed later output is the very object returned as an earlier output
}

func (r *Reg) String() string {
	var b strings.Builder
	fmt.Fprintf(&b, "r%d %s %s", r.ID, lifeNames[r.Life], formNames[r.Form])
	b.WriteString(" (")
	for i, d := range r.Deps {
		if i > 0 {
			b.WriteString(", ")
		}
		b.WriteString(d.String())
	}
	if r.ParamObj {
		b.WriteString(" In{}")
	}
	if r.FuncKind != 0 && r.FuncKind < len(funcKindNames) {
		b.WriteString(" [" + funcKindNames[r.FuncKind] + "]")
	}
	b.WriteString(") -> ")
	for i, o := range r.Outs {
		if i > 0 {
			b.WriteString(", ")
		}
		b.WriteString(o.T.String())
		if o.Concrete != o.T {
			b.WriteString("=" + o.Concrete.String())
		}
		if o.Key != "" {
			b.WriteString("#" + o.Key)
		}
		if o.Group != "" {
			b.WriteString("@" + o.Group)
		}
	}
	if r.SameObj {
		b.WriteString(" [interface-typed output is the same object as an earlier output]")
	}
	if r.Name != "" {
		fmt.Fprintf(&b, " Name(%s)", r.Name)
	}
	if r.Group != "" {
		fmt.Fprintf(&b, " Group(%s)", r.Group)
	}
	for _, a := range r.As {
		fmt.Fprintf(&b, " As[I%d]", a)
	}
	return b.String()
}

type Config struct {
	Regs []*Reg
}

func (c *Config) Strings() []string {
	var out []string
	for _, r := range c.Regs {
		out = append(out, r.String())
	}
	return out
}

// ---------------------------------------------------------------------------
// Identities and the reference registry (documented semantics).

// Ident is a resolvable identity: (type,key) or member ordinal Ord (1-based) of (type,group).
type Ident struct {
	T     TypeRef
	Key   string
	Group string
}

func (i Ident) String() string {
	s := i.T.String()
	if i.Key != "" {
		s += "#" + i.Key
	}
	if i.Group != "" {
		s += "@" + i.Group
	}
	return s
}

// Provision: registration r provides identity Id through output OutIdx.
type Provision struct {
	Id     Ident
	Reg    int
	OutIdx int
	Ord    int // group members: 1-based position in the group
}

// regIdents lists the identities a registration provides, in the order godi
// registers them, according to the documentation.
func regIdents(r *Reg) []Provision {
	var out []Provision
	switch r.Form {
	case FVoid, FVoidErr:
		return nil
	case FSingle, FSingleErr, FInstance:
		if len(r.As) > 0 {
			for _, a := range r.As {
				out = append(out, Provision{Id: Ident{T: ifaceRef(a), Key: r.Name, Group: r.Group}, Reg: r.ID, OutIdx: 0})
			}
			return out
		}
		return []Provision{{Id: Ident{T: r.Outs[0].T, Key: r.Name, Group: r.Group}, Reg: r.ID, OutIdx: 0}}
	case FMulti, FMultiErr:
		for i, o := range r.Outs {
			id := Ident{T: o.T, Group: r.Group}
			if i == 0 {
				id.Key = r.Name
			}
			out = append(out, Provision{Id: id, Reg: r.ID, OutIdx: i})
		}
		return out
	case FResult, FResultErr:
		for i, o := range r.Outs {
			out = append(out, Provision{Id: Ident{T: o.T, Key: o.Key, Group: o.Group}, Reg: r.ID, OutIdx: i})
		}
		return out
	}
	return nil
}

type Registry struct {
	Services map[Ident]Provision   // non-group identities
	Groups   map[Ident][]Provision // key: Ident{T, Group}
	Dups     []Provision           // provisions rejected as duplicates (in order)
	Order    []Provision           // accepted provisions in registration order
}

// buildRegistry applies the registrations in order. A registration whose
// identity collides is rejected as a whole (atomic).
func buildRegistry(c *Config) *Registry {
	rg := &Registry{Services: map[Ident]Provision{}, Groups: map[Ident][]Provision{}}
	for _, r := range c.Regs {
		if r.Removed {
			continue
		}
		ps := regIdents(r)
		dup := false
		seen := map[Ident]bool{}
		for _, p := range ps {
			if p.Id.Group != "" {
				continue
			}
			if _, ok := rg.Services[p.Id]; ok || seen[p.Id] {
				dup = true
				rg.Dups = append(rg.Dups, p)
			}
			seen[p.Id] = true
		}
		if dup {
			continue
		}
		for _, p := range ps {
			if p.Id.Group != "" {
				gk := Ident{T: p.Id.T, Group: p.Id.Group}
				p.Ord = len(rg.Groups[gk]) + 1
				rg.Groups[gk] = append(rg.Groups[gk], p)
			} else {
				rg.Services[p.Id] = p
			}
			rg.Order = append(rg.Order, p)
		}
	}
	return rg
}

// DepTarget describes what a declared dependency resolves to in the model.
type DepTarget struct {
	Dep     Dep
	Builtin bool
	Members []Provision // group: all members (possibly empty); plain: 0 or 1 entries
	Missing bool        // plain dependency with no registration
}

func (rg *Registry) target(d Dep) DepTarget {
	t := DepTarget{Dep: d}
	if d.Ignore {
		return t
	}
	if d.Builtin != BNone {
		t.Builtin = true
		return t
	}
	if d.Group != "" {
		t.Members = rg.Groups[Ident{T: d.T, Group: d.Group}]
		return t
	}
	if p, ok := rg.Services[Ident{T: d.T, Key: d.Key}]; ok {
		t.Members = []Provision{p}
		return t
	}
	t.Missing = true
	return t
}

// Verdict of the reference model for a registration set.
type Verdict struct {
	Dup       bool
	Cycle     bool
	CycleRegs map[int]bool // registrations on some cycle
	Conflict  bool         // singleton/transient depends on scoped
	Missing   bool         // a required dependency of any registration is unregistered
	// MissingEager: a required dependency is missing in something Build itself must construct.
	MissingEager bool
	Accepted     map[int]bool // registrations accepted into the registry
}

func (v Verdict) OK() bool { return !v.Dup && !v.Cycle && !v.Conflict && !v.Missing }

func (v Verdict) Class() string {
	var s []string
	if v.Dup {
		s = append(s, "dup")
	}
	if v.Cycle {
		s = append(s, "cycle")
	}
	if v.Conflict {
		s = append(s, "conflict")
	}
	if v.Missing {
		s = append(s, "missing")
	}
	if len(s) == 0 {
		return "ok"
	}
	return strings.Join(s, "+")
}

type Model struct {
	Cfg  *Config
	Reg  *Registry
	V    Verdict
	Adj  map[int][]int // reg -> regs it depends on (registered targets only)
	regs map[int]*Reg
}

func buildModel(c *Config) *Model {
	m := &Model{Cfg: c, Reg: buildRegistry(c), Adj: map[int][]int{}, regs: map[int]*Reg{}}
	m.V.Accepted = map[int]bool{}
	for _, p := range m.Reg.Order {
		m.V.Accepted[p.Reg] = true
	}
	for _, r := range c.Regs {
		m.regs[r.ID] = r
		if r.Removed {
			continue
		}
		if len(regIdents(r)) == 0 && (r.Form == FVoid || r.Form == FVoidErr) {
			m.V.Accepted[r.ID] = true
		}
	}
	m.V.Dup = len(m.Reg.Dups) > 0
	for _, r := range c.Regs {
		if !m.V.Accepted[r.ID] {
			continue
		}
		for _, d := range r.Deps {
			t := m.Reg.target(d)
			if t.Missing && !d.Optional {
				m.V.Missing = true
			}
			for _, p := range t.Members {
				m.Adj[r.ID] = append(m.Adj[r.ID], p.Reg)
				if r.Life != LScoped && m.regs[p.Reg].Life == LScoped {
					m.V.Conflict = true
				}
			}
		}
	}
	m.V.CycleRegs = m.cycleRegs()
	m.V.Cycle = len(m.V.CycleRegs) > 0
	return m
}

// cycleRegs: Tarjan SCC; a registration is on a cycle if its SCC has more
// than one member or it has a self-loop.
func (m *Model) cycleRegs() map[int]bool {
	index := map[int]int{}
	low := map[int]int{}
	on := map[int]bool{}
	var stack []int
	out := map[int]bool{}
	n := 0
	var strong func(v int)
	strong = func(v int) {
		index[v] = n
		low[v] = n
		n++
		stack = append(stack, v)
		on[v] = true
		for _, w := range m.Adj[v] {
			if _, ok := index[w]; !ok {
				strong(w)
				if low[w] < low[v] {
					low[v] = low[w]
				}
			} else if on[w] && index[w] < low[v] {
				low[v] = index[w]
			}
		}
		if low[v] == index[v] {
			var comp []int
			for {
				w := stack[len(stack)-1]
				stack = stack[:len(stack)-1]
				on[w] = false
				comp = append(comp, w)
				if w == v {
					break
				}
			}
			if len(comp) > 1 {
				for _, w := range comp {
					out[w] = true
				}
			} else {
				for _, w := range m.Adj[v] {
					if w == v {
						out[v] = true
					}
				}
			}
		}
	}
	for _, r := range m.Cfg.Regs {
		if !m.V.Accepted[r.ID] {
			continue
		}
		if _, ok := index[r.ID]; !ok {
			strong(r.ID)
		}
	}
	return out
}

// dependsOn reports whether reg a (transitively) depends on reg b.
func (m *Model) dependsOn(a, b int) bool {
	seen := map[int]bool{}
	var walk func(v int) bool
	walk = func(v int) bool {
		for _, w := range m.Adj[v] {
			if w == b {
				return true
			}
			if !seen[w] {
				seen[w] = true
				if walk(w) {
					return true
				}
			}
		}
		return false
	}
	return walk(a)
}
