#!/bin/bash
# Builds the instrumented simulation binaries from /repo's CURRENT working tree.
# Prints the directory that holds `harness` and `harness.race` on stdout.
# Exit 2 (BUILD-TROUBLE) on any failure; never a VIOLATION.
#
# Binaries are cached by a hash over the repo's non-test Go sources + go.mod/go.sum
# and over the simulator's own sources, under /verif/.cache (git-ignored). Scratch
# copies live under a mktemp dir and are removed as soon as the binaries exist.
set -u
REPO=${VERIF_REPO:-/repo}
VERIF=$(cd "$(dirname "$0")/.." && pwd)
SIM=$VERIF/sim
CACHE=$VERIF/.cache
export GOFLAGS=-mod=mod GOPROXY=off GOSUMDB=off GOTOOLCHAIN=local CGO_ENABLED=1
export PATH=/opt/veriftools/go1.26.8/bin:$PATH
GO=go1.26.8
WANT_RACE=${VERIF_RACE:-1}

trouble() { echo "BUILD-TROUBLE: $*" >&2; exit 2; }

mkdir -p "$CACHE" || trouble "cannot create cache"

hash_tree() {
  (cd "$REPO" && find . -path ./.git -prune -o -path ./docs -prune -o -path ./benchmarks -prune -o \
      \( -name '*.go' ! -name '*_test.go' -o -name go.mod -o -name go.sum \) -type f -print0 | sort -z | xargs -0 sha256sum
   cd "$SIM" && find simrt instrument harness -type f \( -name '*.go' -o -name go.mod -o -name go.sum \) -print0 | sort -z | xargs -0 sha256sum
   sha256sum "$SIM/build.sh") | sha256sum | cut -c1-24
}

H=$(hash_tree) || trouble "hash failed"
OUT=$CACHE/$H
if [ -x "$OUT/harness" ] && { [ "$WANT_RACE" != 1 ] || [ -x "$OUT/harness.race" ]; }; then
  echo "$OUT"; exit 0
fi

# serialise concurrent builders
exec 9>"$CACHE/.lock"
flock 9
if [ -x "$OUT/harness" ] && { [ "$WANT_RACE" != 1 ] || [ -x "$OUT/harness.race" ]; }; then
  echo "$OUT"; exit 0
fi

# instrumenter (cached by its own source hash)
IH=$(cat "$SIM"/instrument/*.go "$SIM"/instrument/go.mod | sha256sum | cut -c1-16)
INST=$CACHE/instrument-$IH
if [ ! -x "$INST" ]; then
  (cd "$SIM/instrument" && $GO build -o "$INST" .) >&2 || trouble "instrumenter build failed"
fi

SCR=$(mktemp -d /tmp/godi-sim.XXXXXX) || trouble "mktemp"
trap 'rm -rf "$SCR"' EXIT
mkdir -p "$SCR/src"
rsync -a --exclude .git --exclude docs --exclude benchmarks --exclude '*_test.go' --exclude .github "$REPO"/ "$SCR/src/" || trouble "copy failed"
mkdir -p "$SCR/src/simrt" "$SCR/src/simgraph"
cp "$SIM"/simrt/*.go "$SCR/src/simrt/" || trouble "simrt copy"
cat > "$SCR/src/simrt/sites_gen.go" <<'EOF'
package simrt
EOF
cat > "$SCR/src/simgraph/simgraph.go" <<'EOF'
// Package simgraph re-exports the internal dependency graph for the harness.
package simgraph

import (
	"github.com/junioryono/godi/v4/internal/graph"
	"github.com/junioryono/godi/v4/internal/reflection"
)

type (
	Graph      = graph.DependencyGraph
	NodeKey    = graph.NodeKey
	Node       = graph.Node
	Provider   = graph.Provider
	Dependency = reflection.Dependency
	CycleError = graph.CircularDependencyError
)

func New() *Graph { return graph.NewDependencyGraph() }

func NewWithCapacity(n int) *Graph { return graph.NewDependencyGraphWithCapacity(n) }
EOF

MODS=". http chi gin echo fiber"
ARGS=""
for m in $MODS; do [ -f "$SCR/src/$m/go.mod" ] && ARGS="$ARGS $SCR/src/$m"; done
(cd "$SCR/src" && "$INST" "$SCR/src" $ARGS) >"$SCR/instrument.log" 2>&1
rc=$?
if [ $rc -ne 0 ]; then cat "$SCR/instrument.log" >&2; trouble "instrumenter exit $rc"; fi

# harness module file
MF=$SCR/harness.mod
{
  echo "module verif/harness"
  echo
  echo "go 1.24.6"
  echo
  echo "require ("
  echo "  github.com/junioryono/godi/v4 v4.0.0"
  for m in http chi gin echo fiber; do echo "  github.com/junioryono/godi/v4/$m v0.0.0"; done
  # framework versions: taken from the integration modules' own go.mod
  for m in gin echo fiber; do
    grep -E '^\s+github.com/(go-chi/chi/v5|gin-gonic/gin|labstack/echo/v4|gofiber/fiber/v2) ' "$SCR/src/$m/go.mod" | head -1
  done
  echo ")"
  echo
  echo "replace github.com/junioryono/godi/v4 => $SCR/src"
  for m in http chi gin echo fiber; do echo "replace github.com/junioryono/godi/v4/$m => $SCR/src/$m"; done
} > "$MF"
cat "$SCR"/src/go.sum "$SCR"/src/*/go.sum 2>/dev/null | sort -u > "$SCR/harness.sum"

mkdir -p "$OUT.tmp"
(cd "$SIM/harness" && $GO build -modfile="$MF" -o "$OUT.tmp/harness" .) >"$SCR/build.log" 2>&1 || { cat "$SCR/build.log" >&2; rm -rf "$OUT.tmp"; trouble "harness build failed"; }
if [ "$WANT_RACE" = 1 ]; then
  (cd "$SIM/harness" && $GO build -race -modfile="$MF" -o "$OUT.tmp/harness.race" .) >"$SCR/build.log" 2>&1 || { cat "$SCR/build.log" >&2; rm -rf "$OUT.tmp"; trouble "harness race build failed"; }
fi
cp "$SCR/src/simrt/sites.txt" "$OUT.tmp/sites.txt" 2>/dev/null
rm -rf "$OUT"
mv "$OUT.tmp" "$OUT" || trouble "cache move"
# keep the cache small: drop entries other than the 6 newest
ls -1dt "$CACHE"/[0-9a-f]*[0-9a-f] 2>/dev/null | grep -v instrument- | tail -n +7 | xargs -r rm -rf
echo "$OUT"
