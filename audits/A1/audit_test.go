// Package clause / location: this file belongs in the ROOT module directory of
// the library (next to scope.go) and uses the external test package
//
//	package godi_test
//
// It only uses the public API. Every test below FAILS on the library as it is.
// Run with: cd <root> && go test -vet=off -count=1 -run TestAudit -v .
package godi_test

import (
	"context"
	"errors"
	"fmt"
	"testing"
	"time"

	"github.com/junioryono/godi/v4"
)

// ---------------------------------------------------------------------------
// shared helpers
// ---------------------------------------------------------------------------

type auditLog struct{ events []string }

func (l *auditLog) add(s string) { l.events = append(l.events, s) }

// auditRes is an ordinary resource: Close touches the receiver's fields, like
// practically every real Close method does.
type auditRes struct {
	name   string
	log    *auditLog
	closes int
}

func (r *auditRes) Close() error {
	r.closes++ // dereferences the receiver
	if r.log != nil {
		r.log.add("close:" + r.name)
	}
	return nil
}

func safeClose(t *testing.T, what string, c interface{ Close() error }) (err error, panicked bool) {
	t.Helper()
	defer func() {
		if r := recover(); r != nil {
			t.Errorf("%s.Close() panicked: %v", what, r)
			panicked = true
		}
	}()
	return c.Close(), false
}

// ---------------------------------------------------------------------------
// Finding 1 (C12 / C10): a result that a multi-return constructor leaves nil is
// tracked as a disposable; Close() is then invoked on the nil pointer, panics,
// and the disposal of everything else the scope / provider owns is abandoned
// for good (the list has already been detached, the owner is marked disposed).
// ---------------------------------------------------------------------------

type auditConn1 struct{ auditRes }
type auditTracer1 struct{ auditRes } // optional companion, may be left nil

func TestAuditNilResultOfMultiReturnAbortsScopeDisposal(t *testing.T) {
	c := godi.NewCollection()
	// A constructor with two results that leaves the optional one nil. The
	// library explicitly supports results left nil (resolving one reports
	// "constructor returned nil instance", the constructor is not run again).
	if err := c.AddScoped(func() (*auditConn1, *auditTracer1) {
		return &auditConn1{auditRes{name: "conn"}}, nil
	}); err != nil {
		t.Fatal(err)
	}
	p, err := c.Build()
	if err != nil {
		t.Fatal(err)
	}

	s, err := p.CreateScope(context.Background())
	if err != nil {
		t.Fatal(err)
	}
	conn, err := godi.Resolve[*auditConn1](s)
	if err != nil {
		t.Fatal(err)
	}

	// C12: "Close on a scope or provider attempts to close every instance it owns"
	safeClose(t, "scope", s)
	if conn.closes != 1 {
		t.Errorf("after scope.Close: the scoped *auditConn1 was closed %d times, want 1", conn.closes)
	}

	// ... and nothing picks it up later: C10 "never leaked"
	safeClose(t, "provider", p)
	if conn.closes != 1 {
		t.Errorf("after provider.Close: the scoped *auditConn1 was closed %d times, want 1 (leaked)", conn.closes)
	}
}

type auditConn1s struct{ auditRes }
type auditTracer1s struct{ auditRes }
type auditEarlier1s struct{ auditRes }

func TestAuditNilResultOfMultiReturnAbortsProviderDisposal(t *testing.T) {
	c := godi.NewCollection()
	var earlier *auditEarlier1s
	var conn *auditConn1s
	if err := c.AddSingleton(func() *auditEarlier1s {
		earlier = &auditEarlier1s{auditRes{name: "earlier"}}
		return earlier
	}); err != nil {
		t.Fatal(err)
	}
	if err := c.AddSingleton(func(*auditEarlier1s) (*auditConn1s, *auditTracer1s) {
		conn = &auditConn1s{auditRes{name: "conn"}}
		return conn, nil
	}); err != nil {
		t.Fatal(err)
	}
	p, err := c.Build()
	if err != nil {
		t.Fatal(err)
	}

	safeClose(t, "provider", p)
	if earlier.closes != 1 || conn.closes != 1 {
		t.Errorf("after provider.Close: singleton closes earlier=%d conn=%d, want 1 and 1", earlier.closes, conn.closes)
	}
	// a second Close is a no-op, so they stay leaked
	_ = p.Close()
	if earlier.closes != 1 || conn.closes != 1 {
		t.Errorf("after second provider.Close: singleton closes earlier=%d conn=%d, want 1 and 1 (leaked)", earlier.closes, conn.closes)
	}
}

// ---------------------------------------------------------------------------
// Finding 2 (C10): one object handed through by a second registration (the
// usual "adapter" registration: take the concrete service, return it as an
// interface) is tracked by every registration that returned it. A singleton is
// closed by the scope's Close (early) and again by the provider; a scoped
// instance is closed twice by its scope.
// ---------------------------------------------------------------------------

type auditPool2 struct{ auditRes }

func (*auditPool2) Query() {}

type auditQuerier2 interface{ Query() }

func TestAuditSingletonHandedThroughScopedRegistrationIsClosedByScope(t *testing.T) {
	c := godi.NewCollection()
	if err := c.AddSingleton(func() *auditPool2 { return &auditPool2{auditRes{name: "pool"}} }); err != nil {
		t.Fatal(err)
	}
	// per-request view of the shared pool
	if err := c.AddScoped(func(p *auditPool2) auditQuerier2 { return p }); err != nil {
		t.Fatal(err)
	}
	p, err := c.Build()
	if err != nil {
		t.Fatal(err)
	}
	pool, err := godi.Resolve[*auditPool2](p)
	if err != nil {
		t.Fatal(err)
	}

	s, err := p.CreateScope(context.Background())
	if err != nil {
		t.Fatal(err)
	}
	if _, err := godi.Resolve[auditQuerier2](s); err != nil {
		t.Fatal(err)
	}
	if err := s.Close(); err != nil {
		t.Fatal(err)
	}

	// C10: "singletons when the provider is closed and not before" /
	// "singletons seen through a scope, are never touched by a scope's Close"
	if pool.closes != 0 {
		t.Errorf("scope.Close closed the singleton pool (%d closes) while the provider is still open", pool.closes)
	}

	if err := p.Close(); err != nil {
		t.Fatal(err)
	}
	// C10: "closed exactly once"
	if pool.closes != 1 {
		t.Errorf("singleton pool closed %d times in total, want exactly 1", pool.closes)
	}
}

type auditConn2 struct{ auditRes }

func (*auditConn2) Query() {}

func TestAuditScopedInstanceHandedThroughSecondRegistrationIsClosedTwice(t *testing.T) {
	c := godi.NewCollection()
	if err := c.AddScoped(func() *auditConn2 { return &auditConn2{auditRes{name: "conn"}} }); err != nil {
		t.Fatal(err)
	}
	if err := c.AddScoped(func(conn *auditConn2) auditQuerier2 { return conn }); err != nil {
		t.Fatal(err)
	}
	p, err := c.Build()
	if err != nil {
		t.Fatal(err)
	}
	defer p.Close()

	s, err := p.CreateScope(context.Background())
	if err != nil {
		t.Fatal(err)
	}
	conn, err := godi.Resolve[*auditConn2](s)
	if err != nil {
		t.Fatal(err)
	}
	if _, err := godi.Resolve[auditQuerier2](s); err != nil {
		t.Fatal(err)
	}
	if err := s.Close(); err != nil {
		t.Fatal(err)
	}
	if conn.closes != 1 {
		t.Errorf("scoped conn closed %d times by one scope.Close, want exactly 1", conn.closes)
	}
}

// ---------------------------------------------------------------------------
// Finding 3 (C12): the disposal error of a grandchild scope that is disposed by
// its cancellation watcher *because of* the grandparent's Close is reported by
// nobody when the watcher finishes before the scope in between starts its own
// disposal: grandparent.Close() returns nil.
//
// Tree: P -> {C1, C2}, C2 -> G. G's context derives from P's context, so
// P.Close (which cancels P's context first) wakes G's watcher. C1 owns a
// disposable whose Close waits until G's disposable has been closed. When P
// closes C1 before C2 (the order is the iteration order of a two-entry map, so
// the scenario is repeated with fresh scopes until it has occurred), G has
// unregistered itself from C2 by the time C2 is closed, and G's error is gone.
// In the other order the error is reported, so every round must report it.
// ---------------------------------------------------------------------------

type auditBlocker3 struct{ wait <-chan struct{} }

func (b *auditBlocker3) Close() error {
	<-b.wait                          // G's disposable has been closed (by G's watcher)
	time.Sleep(30 * time.Millisecond) // let the watcher finish G's bookkeeping
	return nil
}

type auditFailing3 struct{ closed chan struct{} }

func (f *auditFailing3) Close() error {
	close(f.closed)
	return errors.New("flush failed")
}

func TestAuditGrandchildDisposalErrorDuringCloseIsLost(t *testing.T) {
	var gClosed chan struct{}
	c := godi.NewCollection()
	if err := c.AddScoped(func() *auditBlocker3 { return &auditBlocker3{wait: gClosed} }); err != nil {
		t.Fatal(err)
	}
	if err := c.AddScoped(func() *auditFailing3 { return &auditFailing3{closed: gClosed} }); err != nil {
		t.Fatal(err)
	}
	p, err := c.Build()
	if err != nil {
		t.Fatal(err)
	}
	defer p.Close()

	for round := 0; round < 64; round++ {
		gClosed = make(chan struct{})

		P, err := p.CreateScope(context.Background())
		if err != nil {
			t.Fatal(err)
		}
		C1, err := P.CreateScope(context.Background())
		if err != nil {
			t.Fatal(err)
		}
		C2, err := P.CreateScope(context.Background())
		if err != nil {
			t.Fatal(err)
		}
		G, err := C2.CreateScope(P.Context())
		if err != nil {
			t.Fatal(err)
		}
		if _, err := godi.Resolve[*auditBlocker3](C1); err != nil {
			t.Fatal(err)
		}
		failing, err := godi.Resolve[*auditFailing3](G)
		if err != nil {
			t.Fatal(err)
		}

		closeErr := P.Close()

		select {
		case <-failing.closed:
		default:
			t.Fatalf("round %d: the grandchild's disposable was not closed by P.Close", round)
		}

		// C12: "it returns a disposal error exactly when at least one of them
		// (anywhere in its subtree) failed and nil otherwise"
		if closeErr == nil {
			t.Fatalf("round %d: P.Close() returned nil although the Close of a disposable in its grandchild scope failed during it", round)
		}
	}
}

// ---------------------------------------------------------------------------
// Finding 4 (C11): a transient that a singleton received as a dependency is
// owned by the root scope and therefore closed BEFORE the singleton that holds
// it.
// ---------------------------------------------------------------------------

type auditBuffer4 struct{ auditRes }
type auditWriter4 struct {
	auditRes
	buf *auditBuffer4
}

func TestAuditTransientDependencyOfSingletonIsClosedBeforeTheSingleton(t *testing.T) {
	l := &auditLog{}
	c := godi.NewCollection()
	if err := c.AddTransient(func() *auditBuffer4 { return &auditBuffer4{auditRes{name: "buffer(dependency)", log: l}} }); err != nil {
		t.Fatal(err)
	}
	if err := c.AddSingleton(func(b *auditBuffer4) *auditWriter4 {
		return &auditWriter4{auditRes{name: "writer(dependent)", log: l}, b}
	}); err != nil {
		t.Fatal(err)
	}
	p, err := c.Build()
	if err != nil {
		t.Fatal(err)
	}
	if err := p.Close(); err != nil {
		t.Fatal(err)
	}

	// C11: "Disposal order: dependents before dependencies" / "no instance is
	// closed while a still-open instance that received it as a dependency exists"
	want := []string{"close:writer(dependent)", "close:buffer(dependency)"}
	if fmt.Sprint(l.events) != fmt.Sprint(want) {
		t.Errorf("disposal order %v, want %v", l.events, want)
	}
}

// ---------------------------------------------------------------------------
// Finding 5 (C10): one object returned under two results of one constructor is
// still closed twice when it is not a pointer (here: a map, a reference type
// with identity just like a pointer). The repair for pointers (sameObject)
// compares pointers only.
// ---------------------------------------------------------------------------

type auditRegistry5 map[string]int

func (r auditRegistry5) Close() error { r["closed"]++; return nil }

type auditShutdowner5 interface{ Close() error }

func TestAuditMapReturnedUnderTwoResultsIsClosedTwice(t *testing.T) {
	var created []auditRegistry5
	c := godi.NewCollection()
	if err := c.AddScoped(func() (auditRegistry5, auditShutdowner5) {
		r := auditRegistry5{}
		created = append(created, r)
		return r, r
	}); err != nil {
		t.Fatal(err)
	}
	p, err := c.Build()
	if err != nil {
		t.Fatal(err)
	}
	defer p.Close()

	s, err := p.CreateScope(context.Background())
	if err != nil {
		t.Fatal(err)
	}
	if _, err := godi.Resolve[auditRegistry5](s); err != nil {
		t.Fatal(err)
	}
	if err := s.Close(); err != nil {
		t.Fatal(err)
	}
	if len(created) != 1 {
		t.Fatalf("constructor ran %d times", len(created))
	}
	if n := created[0]["closed"]; n != 1 {
		t.Errorf("the one registry object was closed %d times by scope.Close, want exactly 1", n)
	}
}

// ---------------------------------------------------------------------------
// Finding 6 (C10 / C12, borderline - the object is supplied, not created, by
// the container, but the container takes ownership of it): an instance value
// registered under two interfaces is closed twice by one provider.Close. The
// repair that shares one instance between As-aliases covers constructors only.
// ---------------------------------------------------------------------------

type auditReader6 interface{ Read() }
type auditWriter6 interface{ Write() }
type auditFile6 struct{ auditRes }

func (*auditFile6) Read()  {}
func (*auditFile6) Write() {}

func TestAuditInstanceValueUnderTwoInterfacesIsClosedTwice(t *testing.T) {
	file := &auditFile6{auditRes{name: "file"}}
	c := godi.NewCollection()
	if err := c.AddSingleton(file, godi.As[auditReader6](), godi.As[auditWriter6]()); err != nil {
		t.Fatal(err)
	}
	p, err := c.Build()
	if err != nil {
		t.Fatal(err)
	}
	if err := p.Close(); err != nil {
		t.Fatal(err)
	}
	if file.closes != 1 {
		t.Errorf("the registered instance was closed %d times by one provider.Close, want exactly 1", file.closes)
	}
}

