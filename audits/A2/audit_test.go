// Package clause: these tests belong in the ROOT module directory of the
// repository (next to collection.go) as an external test package:
//
//	package godi_test
//
// Run with: cd <repo root> && go test -vet=off -count=1 -run TestAudit .
//
// Every test uses only the public API and FAILS on the library as it is.
package godi_test

import (
	"context"
	"errors"
	"reflect"
	"strings"
	"testing"

	godi "github.com/junioryono/godi/v4"
)

// ---------------------------------------------------------------------------
// Finding 1 (C04): godi.As accepts a constructor that returns a VALUE type of
// which only the POINTER type implements the interface. The value is then
// stored and handed out under the interface identity although it does not
// implement the interface; injecting it makes reflect.Call panic.
// ---------------------------------------------------------------------------

func firstLine(err error) string {
	msg := err.Error()
	if i := strings.IndexByte(msg, '\n'); i >= 0 {
		return msg[:i] + " ..."
	}
	return msg
}

type auditGreeter interface{ Greet() string }

type auditGreeterVal struct{ n int }

func (v *auditGreeterVal) Greet() string { return "hi" } // pointer receiver only

type auditGreeterUser struct{ g auditGreeter }

func TestAuditC04_AsAcceptsValueTypeThatDoesNotImplementInterface(t *testing.T) {
	greeterType := reflect.TypeOf((*auditGreeter)(nil)).Elem()

	t.Run("resolve", func(t *testing.T) {
		c := godi.NewCollection()
		if err := c.AddSingleton(func() auditGreeterVal { return auditGreeterVal{n: 1} }, godi.As[auditGreeter]()); err != nil {
			return // rejecting the registration is fine
		}
		p, err := c.Build()
		if err != nil {
			return // rejecting at Build is fine as well
		}
		defer p.Close()

		v, err := p.Get(greeterType)
		if err != nil {
			t.Fatalf("service registered As auditGreeter is not resolvable: %v", err)
		}
		if _, ok := v.(auditGreeter); !ok {
			t.Errorf("Get(auditGreeter) returned a %T, which does not implement auditGreeter", v)
		}
		if _, err := godi.Resolve[auditGreeter](p); err != nil {
			t.Errorf("Resolve[auditGreeter] fails for an accepted As registration: %v", err)
		}
	})

	t.Run("inject", func(t *testing.T) {
		c := godi.NewCollection()
		if err := c.AddScoped(func() auditGreeterVal { return auditGreeterVal{n: 1} }, godi.As[auditGreeter]()); err != nil {
			return
		}
		if err := c.AddScoped(func(g auditGreeter) *auditGreeterUser { return &auditGreeterUser{g: g} }); err != nil {
			t.Fatal(err)
		}
		p, err := c.Build()
		if err != nil {
			return
		}
		defer p.Close()

		s, err := p.CreateScope(context.Background())
		if err != nil {
			t.Fatal(err)
		}
		defer s.Close()

		u, err := godi.Resolve[*auditGreeterUser](s)
		if err != nil {
			t.Fatalf("constructor parameter of type auditGreeter did not receive the service registered under auditGreeter: %s", firstLine(err))
		}
		if u.g == nil {
			t.Errorf("parameter is nil")
		}
	})
}

// ---------------------------------------------------------------------------
// Finding 2 (C04): godi.As on a constructor with several return values is
// accepted and silently dropped: the interface identity does not exist, the
// concrete identities (which As promises NOT to register) do.
// ---------------------------------------------------------------------------

type auditReader interface{ Read() }
type auditStore struct{}
type auditHealth struct{}

func (*auditStore) Read() {}

func TestAuditC04_AsSilentlyDroppedOnMultiReturnConstructor(t *testing.T) {
	c := godi.NewCollection()
	err := c.AddSingleton(func() (*auditStore, *auditHealth) { return &auditStore{}, &auditHealth{} }, godi.As[auditReader]())
	if err != nil {
		return // rejecting the combination would be fine
	}
	p, err := c.Build()
	if err != nil {
		t.Fatal(err)
	}
	defer p.Close()

	if _, err := p.Get(reflect.TypeOf((*auditReader)(nil)).Elem()); err != nil {
		t.Errorf("registered with As[auditReader] but not resolvable as auditReader: %v", err)
	}
	if _, err := p.Get(reflect.TypeOf((*auditStore)(nil))); err == nil {
		t.Errorf("registered with As[auditReader] only, but resolvable as *auditStore (an identity it was not registered under)")
	}
}

// ---------------------------------------------------------------------------
// Finding 3 (C04): an optional parameter-object field is left zero although a
// service IS registered for it, when constructing that service fails: the
// error is swallowed and the consumer is built (and, being scoped, cached for
// the whole scope) with a nil dependency.
// ---------------------------------------------------------------------------

type auditCache struct{}
type auditCacheUser struct{ cache *auditCache }
type auditCacheUserIn struct {
	godi.In
	Cache *auditCache `optional:"true"`
}

func TestAuditC04_OptionalFieldStaysZeroAlthoughServiceIsRegistered(t *testing.T) {
	c := godi.NewCollection()
	calls := 0
	if err := c.AddTransient(func() (*auditCache, error) {
		calls++
		if calls == 1 {
			return nil, errors.New("transient failure")
		}
		return &auditCache{}, nil
	}); err != nil {
		t.Fatal(err)
	}
	if err := c.AddScoped(func(in auditCacheUserIn) *auditCacheUser { return &auditCacheUser{cache: in.Cache} }); err != nil {
		t.Fatal(err)
	}
	p, err := c.Build()
	if err != nil {
		t.Fatal(err)
	}
	defer p.Close()

	s, err := p.CreateScope(context.Background())
	if err != nil {
		t.Fatal(err)
	}
	defer s.Close()

	u, err := godi.Resolve[*auditCacheUser](s)
	if err != nil {
		return // propagating the construction failure is fine
	}
	if u.cache == nil {
		t.Errorf("optional field Cache is nil although *auditCache is registered (its constructor error was swallowed; constructor calls=%d)", calls)
	}
}

// ---------------------------------------------------------------------------
// Finding 4 (C04): a variadic constructor parameter (analysed as one parameter
// of the slice type) does not receive the slice registered under that type:
// reflect.Value.Call is used instead of CallSlice, so the registered slice is
// wrapped as a single variadic element (or Call panics when the element type
// does not accept a slice).
// ---------------------------------------------------------------------------

type auditFieldLogger struct{ fields []any }

type auditOption func()
type auditServer struct{ opts []auditOption }

func TestAuditC04_VariadicParameterDoesNotReceiveRegisteredSlice(t *testing.T) {
	t.Run("any", func(t *testing.T) {
		registered := []any{"service", "audit"}
		c := godi.NewCollection()
		if err := c.AddSingleton(func() []any { return registered }); err != nil {
			t.Fatal(err)
		}
		if err := c.AddSingleton(func(fields ...any) *auditFieldLogger { return &auditFieldLogger{fields: fields} }); err != nil {
			return // rejecting variadic constructors would be fine
		}
		p, err := c.Build()
		if err != nil {
			t.Fatalf("build: %v", err)
		}
		defer p.Close()

		l, err := godi.Resolve[*auditFieldLogger](p)
		if err != nil {
			t.Fatal(err)
		}
		if !reflect.DeepEqual(l.fields, registered) {
			t.Errorf("parameter of type []any received %#v, registered under []any is %#v", l.fields, registered)
		}
	})

	t.Run("options", func(t *testing.T) {
		c := godi.NewCollection()
		if err := c.AddSingleton(func() []auditOption { return []auditOption{func() {}, func() {}} }); err != nil {
			t.Fatal(err)
		}
		if err := c.AddSingleton(func(opts ...auditOption) *auditServer { return &auditServer{opts: opts} }); err != nil {
			return
		}
		p, err := c.Build()
		if err != nil {
			t.Fatalf("registration accepted, []auditOption registered, but Build fails: %s", firstLine(err))
		}
		defer p.Close()

		srv, err := godi.Resolve[*auditServer](p)
		if err != nil {
			t.Fatal(err)
		}
		if len(srv.opts) != 2 {
			t.Errorf("got %d options, want 2", len(srv.opts))
		}
	})
}

// ---------------------------------------------------------------------------
// Finding 5 (C02): a scoped registration of an instance value hands the very
// same object to every scope (siblings, parent/child and the root scope).
// ---------------------------------------------------------------------------

type auditRequestState struct{ closed int }

func (r *auditRequestState) Close() error { r.closed++; return nil }

func TestAuditC02_ScopedInstanceValueIsSharedBetweenScopes(t *testing.T) {
	c := godi.NewCollection()
	if err := c.AddScoped(&auditRequestState{}); err != nil {
		return // rejecting scoped instance values would be fine
	}
	p, err := c.Build()
	if err != nil {
		t.Fatal(err)
	}
	defer p.Close()

	s1, err := p.CreateScope(context.Background())
	if err != nil {
		t.Fatal(err)
	}
	s2, err := p.CreateScope(context.Background())
	if err != nil {
		t.Fatal(err)
	}
	child, err := s1.CreateScope(context.Background())
	if err != nil {
		t.Fatal(err)
	}

	a, err := godi.Resolve[*auditRequestState](s1)
	if err != nil {
		t.Fatal(err)
	}
	b, err := godi.Resolve[*auditRequestState](s2)
	if err != nil {
		t.Fatal(err)
	}
	ch, err := godi.Resolve[*auditRequestState](child)
	if err != nil {
		t.Fatal(err)
	}
	root, err := godi.Resolve[*auditRequestState](p)
	if err != nil {
		t.Fatal(err)
	}

	if a == b {
		t.Errorf("sibling scopes share one scoped instance")
	}
	if a == ch {
		t.Errorf("parent and child scope share one scoped instance")
	}
	if a == root {
		t.Errorf("root scope and a created scope share one scoped instance")
	}

	// Consequence: closing one scope disposes the instance the other scope still uses
	_ = child.Close()
	_ = s1.Close()
	if b.closed != 0 {
		t.Errorf("instance held by open scope s2 has been closed %d time(s) by closing other scopes", b.closed)
	}
	_ = s2.Close()
}
