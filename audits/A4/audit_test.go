// Directory: <repo>/http  (module github.com/junioryono/godi/v4/http)
// Package clause of that directory:  package http
//
// All tests use only the public API of godi and of this integration; they sit in
// the http module because it is the smallest module that sees both.
// Run: cd http && go test -vet=off -count=1 -run TestAudit ./...
//
// Every test here FAILS on the library as it is.
package http

import (
	"context"
	"errors"
	"net/http"
	"net/http/httptest"
	"sync/atomic"
	"testing"
	"time"

	"github.com/junioryono/godi/v4"
)

func a4must(t *testing.T, err error) {
	t.Helper()
	if err != nil {
		t.Fatal(err)
	}
}

// ---------------------------------------------------------------------------
// Finding 1 (C13): a resolution that overlaps a Close returns, without error, an
// object whose registered dependency was silently left nil.
// ---------------------------------------------------------------------------

type a4Dep struct{ name string }

type a4Gate struct{}

type a4Consumer struct{ Dep *a4Dep }

type a4ConsumerIn struct {
	godi.In

	Gate *a4Gate
	Dep  *a4Dep `optional:"true"`
}

func TestAuditC13OptionalDependencyNilAfterOverlappingClose(t *testing.T) {
	var scopeRef atomic.Value // godi.Scope
	var closeDuringGate atomic.Bool

	c := godi.NewCollection()
	a4must(t, c.AddSingleton(func() *a4Dep { return &a4Dep{name: "dep"} }))
	a4must(t, c.AddTransient(func() *a4Gate {
		if closeDuringGate.Load() {
			// another goroutine closes the scope while the resolution is in flight
			done := make(chan error, 1)
			go func() { done <- scopeRef.Load().(godi.Scope).Close() }()
			<-done
		}
		return &a4Gate{}
	}))
	a4must(t, c.AddTransient(func(in a4ConsumerIn) *a4Consumer { return &a4Consumer{Dep: in.Dep} }))

	p, err := c.Build()
	a4must(t, err)
	defer p.Close()

	s, err := p.CreateScope(context.Background())
	a4must(t, err)
	scopeRef.Store(s)

	// without an overlapping Close the registered dependency is always injected
	got, err := godi.Resolve[*a4Consumer](s)
	a4must(t, err)
	if got.Dep == nil {
		t.Fatal("sanity: the registered dependency must be injected")
	}

	closeDuringGate.Store(true)
	got, err = godi.Resolve[*a4Consumer](s)
	if err != nil {
		if !errors.Is(err, godi.ErrScopeDisposed) {
			t.Fatalf("unexpected error: %v", err)
		}
		return // the disposed error: what the property allows
	}
	if got.Dep == nil {
		t.Fatalf("resolution overlapping Close completed without error but the consumer's registered dependency is nil (half-initialised result)")
	}
}

// ---------------------------------------------------------------------------
// Finding 2 (C13): Close returns while descendants / scopes are still open when
// another Close of the same scope (cancellation watcher) or provider is in flight.
// ---------------------------------------------------------------------------

type a4Blocker struct {
	entered chan struct{}
	release chan struct{}
}

func (b *a4Blocker) Close() error {
	b.entered <- struct{}{}
	<-b.release
	return nil
}

type a4Plain struct{}

func TestAuditC13CloseReturnsWhileDescendantsStillOpen(t *testing.T) {
	entered := make(chan struct{}, 2)
	release := make(chan struct{})

	c := godi.NewCollection()
	a4must(t, c.AddScoped(func() *a4Blocker { return &a4Blocker{entered: entered, release: release} }))
	a4must(t, c.AddScoped(func() *a4Plain { return &a4Plain{} }))

	p, err := c.Build()
	a4must(t, err)

	ctx, cancel := context.WithCancel(context.Background())
	parent, err := p.CreateScope(ctx)
	a4must(t, err)

	// two children with contexts of their own, each holding a disposable whose
	// Close takes a while: whichever the parent closes first, the other one has
	// not been touched yet
	child1, err := parent.CreateScope(context.Background())
	a4must(t, err)
	child2, err := parent.CreateScope(context.Background())
	a4must(t, err)
	_, err = godi.Resolve[*a4Blocker](child1)
	a4must(t, err)
	_, err = godi.Resolve[*a4Blocker](child2)
	a4must(t, err)

	cancel() // cancelling the context closes parent (cancellation watcher)
	select {
	case <-entered:
	case <-time.After(2 * time.Second):
		t.Fatal("the watcher did not start closing the children")
	}

	// the user's own Close (the usual "defer cancel(); defer scope.Close()")
	if err := parent.Close(); err != nil {
		t.Fatalf("Close: %v", err)
	}

	// Close has returned on parent: all its descendants must be closed
	_, err1 := godi.Resolve[*a4Plain](child1)
	_, err2 := godi.Resolve[*a4Plain](child2)
	close(release)

	if !errors.Is(err1, godi.ErrScopeDisposed) || !errors.Is(err2, godi.ErrScopeDisposed) {
		t.Errorf("parent.Close has returned but a descendant still resolves: child1 err=%v, child2 err=%v", err1, err2)
	}
	_ = p.Close()
}

func TestAuditC13ProviderCloseReturnsWhileScopesStillOpen(t *testing.T) {
	entered := make(chan struct{}, 2)
	release := make(chan struct{})

	c := godi.NewCollection()
	a4must(t, c.AddScoped(func() *a4Blocker { return &a4Blocker{entered: entered, release: release} }))
	a4must(t, c.AddScoped(func() *a4Plain { return &a4Plain{} }))
	p, err := c.Build()
	a4must(t, err)

	s1, err := p.CreateScope(context.Background())
	a4must(t, err)
	s2, err := p.CreateScope(context.Background())
	a4must(t, err)
	_, err = godi.Resolve[*a4Blocker](s1)
	a4must(t, err)
	_, err = godi.Resolve[*a4Blocker](s2)
	a4must(t, err)

	first := make(chan error, 1)
	go func() { first <- p.Close() }() // e.g. a shutdown hook
	select {
	case <-entered:
	case <-time.After(2 * time.Second):
		t.Fatal("the first Close did not start")
	}

	if err := p.Close(); err != nil { // e.g. the deferred Close in main
		t.Fatal(err)
	}
	_, err1 := godi.Resolve[*a4Plain](s1)
	_, err2 := godi.Resolve[*a4Plain](s2)
	close(release)
	<-first

	if !errors.Is(err1, godi.ErrScopeDisposed) || !errors.Is(err2, godi.ErrScopeDisposed) {
		t.Errorf("provider.Close has returned but a scope still resolves: s1 err=%v, s2 err=%v", err1, err2)
	}
}

// ---------------------------------------------------------------------------
// Finding 3 (C13 / C16): a nil pointer of a Disposable type returned as one of
// several constructor results is tracked for disposal; Close then panics in the
// middle of the cascade and leaves descendants and instances undisposed.
// ---------------------------------------------------------------------------

type a4Optional struct{ n int }

func (o *a4Optional) Close() error { o.n++; return nil }

type a4Counted struct{ closed *int32 }

func (r *a4Counted) Close() error { atomic.AddInt32(r.closed, 1); return nil }

func a4NilResultCollection(t *testing.T, closed *int32) godi.Provider {
	c := godi.NewCollection()
	a4must(t, c.AddScoped(func() *a4Counted { return &a4Counted{closed: closed} }))
	// the second result is optional equipment this constructor does not provide
	a4must(t, c.AddScoped(func() (*a4Plain, *a4Optional) { return &a4Plain{}, nil }))
	p, err := c.Build()
	a4must(t, err)
	return p
}

func TestAuditC13NilDisposableResultBreaksCloseCascade(t *testing.T) {
	var closed int32
	p := a4NilResultCollection(t, &closed)

	parent, err := p.CreateScope(context.Background())
	a4must(t, err)
	child1, err := parent.CreateScope(context.Background())
	a4must(t, err)
	child2, err := parent.CreateScope(context.Background())
	a4must(t, err)
	for _, s := range []godi.Scope{parent, child1, child2} {
		_, err = godi.Resolve[*a4Counted](s)
		a4must(t, err)
	}
	for _, s := range []godi.Scope{child1, child2} {
		_, err = godi.Resolve[*a4Plain](s)
		a4must(t, err)
	}

	var panicked any
	func() {
		defer func() { panicked = recover() }()
		_ = parent.Close()
	}()

	if panicked != nil {
		t.Errorf("parent.Close panicked: %v", panicked)
	}
	_, err1 := godi.Resolve[*a4Plain](child1)
	_, err2 := godi.Resolve[*a4Plain](child2)
	if !errors.Is(err1, godi.ErrScopeDisposed) || !errors.Is(err2, godi.ErrScopeDisposed) {
		t.Errorf("closing the parent did not close all descendants: child1 err=%v, child2 err=%v", err1, err2)
	}
	if n := atomic.LoadInt32(&closed); n != 3 {
		t.Errorf("%d of 3 scoped disposables closed", n)
	}

	func() {
		defer func() { _ = recover() }()
		_ = p.Close()
	}()
}

func TestAuditC16NilDisposableResultRequestScopeNotClosed(t *testing.T) {
	var closed int32
	p := a4NilResultCollection(t, &closed)
	defer func() {
		defer func() { _ = recover() }()
		_ = p.Close()
	}()

	var seen godi.Scope
	h := ScopeMiddleware(p)(http.HandlerFunc(func(w http.ResponseWriter, r *http.Request) {
		s, err := godi.FromContext(r.Context())
		a4must(t, err)
		seen = s
		_, err = godi.Resolve[*a4Counted](s)
		a4must(t, err)
		_, err = godi.Resolve[*a4Plain](s)
		a4must(t, err)
		w.WriteHeader(http.StatusOK)
	}))

	var panicked any
	func() {
		defer func() { panicked = recover() }()
		h.ServeHTTP(httptest.NewRecorder(), httptest.NewRequest(http.MethodGet, "/", nil))
	}()

	if panicked != nil {
		t.Errorf("a request whose handler returned normally panicked in the scope middleware: %v", panicked)
	}
	if n := atomic.LoadInt32(&closed); n != 1 {
		t.Errorf("request ended: scoped disposable of the request scope closed %d times, want 1", n)
	}
	_ = seen
}

// ---------------------------------------------------------------------------
// Finding 4 (C13): closing an ancestor (parent scope or provider) from the Close
// of a scoped disposable hangs forever.
// ---------------------------------------------------------------------------

type a4Shutdown struct{ do func() }

func (s *a4Shutdown) Close() error { s.do(); return nil }

func TestAuditC13AncestorCloseFromDisposableHangs(t *testing.T) {
	var prov godi.Provider
	c := godi.NewCollection()
	// a resource that shuts the container down when it is released
	a4must(t, c.AddScoped(func() *a4Shutdown { return &a4Shutdown{do: func() { _ = prov.Close() }} }))
	p, err := c.Build()
	a4must(t, err)
	prov = p

	s, err := p.CreateScope(context.Background())
	a4must(t, err)
	_, err = godi.Resolve[*a4Shutdown](s)
	a4must(t, err)

	done := make(chan struct{})
	go func() { _ = s.Close(); close(done) }()
	select {
	case <-done:
	case <-time.After(2 * time.Second):
		t.Fatal("scope.Close hangs: provider.Close, overlapping the Close of the scope, waits for that scope to finish closing")
	}
}

// ---------------------------------------------------------------------------
// Finding 5 (C16, weaker): the nil value of the handler options, which Config
// documents as "use the default", makes the middleware panic.
// ---------------------------------------------------------------------------

type a4FailingClose struct{}

func (*a4FailingClose) Close() error { return errors.New("close failed") }

func TestAuditC16NilErrorHandlerOption(t *testing.T) {
	c := godi.NewCollection()
	p, err := c.Build()
	a4must(t, err)
	_ = p.Close() // scope creation fails: provider already closed

	h := ScopeMiddleware(p, WithErrorHandler(nil))(http.HandlerFunc(func(w http.ResponseWriter, r *http.Request) {
		t.Error("handler ran without a scope")
	}))

	rec := httptest.NewRecorder()
	var panicked any
	func() {
		defer func() { panicked = recover() }()
		h.ServeHTTP(rec, httptest.NewRequest(http.MethodGet, "/", nil))
	}()
	if panicked != nil {
		t.Fatalf("scope creation failed and no error handler ran; the middleware panicked: %v", panicked)
	}
	if rec.Code != http.StatusInternalServerError {
		t.Errorf("status %d, want the default handler's 500", rec.Code)
	}
}

func TestAuditC16NilCloseErrorHandlerOption(t *testing.T) {
	c := godi.NewCollection()
	a4must(t, c.AddScoped(func() *a4FailingClose { return &a4FailingClose{} }))
	p, err := c.Build()
	a4must(t, err)
	defer p.Close()

	h := ScopeMiddleware(p, WithCloseErrorHandler(nil))(http.HandlerFunc(func(w http.ResponseWriter, r *http.Request) {
		s, err := godi.FromContext(r.Context())
		a4must(t, err)
		_, err = godi.Resolve[*a4FailingClose](s)
		a4must(t, err)
	}))

	var panicked any
	func() {
		defer func() { panicked = recover() }()
		h.ServeHTTP(httptest.NewRecorder(), httptest.NewRequest(http.MethodGet, "/", nil))
	}()
	if panicked != nil {
		t.Fatalf("normal request, scope close reported an error, middleware panicked: %v", panicked)
	}
}
