// Package clause: these tests belong in the ROOT module directory of the
// repository (next to collection.go), as an external test package:
//
//	package godi_test
//
// Run with: cd <repo root> && go test -vet=off -count=1 -run 'TestAudit' .
//
// Every test below FAILS on the library as it is (HEAD a41ac7b).
package godi_test

import (
	"errors"
	"fmt"
	"reflect"
	"testing"

	"github.com/junioryono/godi/v4"
)

// ---------------------------------------------------------------------------
// helpers
// ---------------------------------------------------------------------------

// auditNoPanic runs f and reports a panic escaping from it as a test error.
func auditNoPanic(t *testing.T, what string, f func()) (panicked bool) {
	t.Helper()
	defer func() {
		if r := recover(); r != nil {
			panicked = true
			t.Errorf("C15 violated: %s panicked instead of returning an error: %v", what, r)
		}
	}()
	f()
	return false
}

// auditConn is an ordinary disposable resource: Close uses the receiver, as
// practically every real Close method does.
type auditConn struct {
	open   bool
	closed int
}

func (c *auditConn) Close() error {
	c.open = false // nil receiver => nil pointer dereference
	c.closed++
	return nil
}

type auditPlain struct{ n int }

// ---------------------------------------------------------------------------
// Finding 1 (C15): a pointer-typed constructor that returns nil makes
// Scope.Close / Provider.Close panic.
// ---------------------------------------------------------------------------

func TestAuditC15_NilPointerResultMakesScopeClosePanic(t *testing.T) {
	c := godi.NewCollection()
	if err := c.AddScoped(func() *auditConn { return nil }); err != nil {
		t.Fatal(err)
	}
	// a second, live disposable that must still be disposed by the scope
	other := &auditOther{}
	if err := c.AddScoped(func() *auditOther { return other }); err != nil {
		t.Fatal(err)
	}

	p, err := c.Build()
	if err != nil {
		t.Fatal(err)
	}
	s, err := p.CreateScope(nil)
	if err != nil {
		t.Fatal(err)
	}

	if _, err := s.Get(reflect.TypeOf((*auditOther)(nil))); err != nil {
		t.Fatal(err)
	}

	// Either outcome is acceptable here: an error ("constructor returned nil
	// instance", as for a nil interface result) or a nil pointer. What is not
	// acceptable is that the scope now blows up in Close.
	v, err := s.Get(reflect.TypeOf((*auditConn)(nil)))
	t.Logf("Get(*auditConn) = %#v, %v", v, err)

	auditNoPanic(t, "Scope.Close after a constructor returned a nil pointer", func() {
		_ = s.Close()
	})
	if other.closed != 1 {
		t.Errorf("C15 violated: the successfully constructed service was not disposed by the scope (closed=%d)", other.closed)
	}
	auditNoPanic(t, "Provider.Close", func() { _ = p.Close() })
}

type auditOther struct{ closed int }

func (o *auditOther) Close() error { o.closed++; return nil }

func TestAuditC15_NilPointerSingletonMakesProviderClosePanic(t *testing.T) {
	c := godi.NewCollection()
	// second result of a multi-return constructor is a nil pointer
	if err := c.AddSingleton(func() (*auditPlain, *auditConn) { return &auditPlain{}, nil }); err != nil {
		t.Fatal(err)
	}

	var p godi.Provider
	var err error
	if auditNoPanic(t, "Build", func() { p, err = c.Build() }) {
		return
	}
	if err != nil {
		// rejecting the nil result with an error would be fine
		t.Logf("Build rejected the nil result: %v", err)
		return
	}

	auditNoPanic(t, "Provider.Close after a singleton constructor returned a nil pointer", func() {
		_ = p.Close()
	})
}

// ---------------------------------------------------------------------------
// Finding 2 (C15): a constructor whose error result has a non-nillable type
// (syscall.Errno-like) makes Get / Build panic inside reflect.Value.IsNil.
// ---------------------------------------------------------------------------

// auditErrno mirrors syscall.Errno: an integer type that implements error.
type auditErrno uintptr

func (e auditErrno) Error() string { return fmt.Sprintf("errno %d", uintptr(e)) }

func TestAuditC15_NonNillableErrorResultPanicsOnResolve(t *testing.T) {
	c := godi.NewCollection()
	fail := true
	err := c.AddScoped(func() (*auditPlain, auditErrno) {
		if fail {
			return nil, auditErrno(2)
		}
		return &auditPlain{n: 1}, 0
	})
	if err != nil {
		// Rejecting this constructor form at registration would be a
		// classifiable error and therefore fine.
		t.Logf("registration rejected: %v", err)
		return
	}

	p, err := c.Build()
	if err != nil {
		t.Fatal(err)
	}
	defer p.Close()

	s, err := p.CreateScope(nil)
	if err != nil {
		t.Fatal(err)
	}
	defer s.Close()

	auditNoPanic(t, "Scope.Get of a service whose constructor returns (T, Errno-like error)", func() {
		_, err := s.Get(reflect.TypeOf((*auditPlain)(nil)))
		if err == nil {
			t.Errorf("C15 violated: constructor returned an error, Get returned none")
			return
		}
		var en auditErrno
		if !errors.As(err, &en) || en != 2 {
			t.Errorf("C15 violated: constructor's own error is not reachable: %v", err)
		}
	})
}

func TestAuditC15_NonNillableErrorResultPanicsInBuild(t *testing.T) {
	c := godi.NewCollection()
	// an initializer function of the form func() <error type>
	if err := c.AddSingleton(func() auditErrno { return 0 }); err != nil {
		t.Logf("registration rejected: %v", err)
		return
	}

	auditNoPanic(t, "Build with a singleton initializer returning an Errno-like error type", func() {
		p, err := c.Build()
		if err == nil {
			p.Close()
		}
	})
}

// ---------------------------------------------------------------------------
// Finding 3 (C15): As[I] is accepted for a constructor returning a VALUE type
// whose POINTER implements I; resolving a consumer that takes I through a
// parameter object (or a group) then panics in reflect.Set.
// ---------------------------------------------------------------------------

type auditGreeter interface{ Greet() string }

type auditValueImpl struct{ n int }

func (v *auditValueImpl) Greet() string { return "hi" } // pointer receiver only

type auditGreeterParams struct {
	godi.In
	G auditGreeter
}

type auditGreeterGroupParams struct {
	godi.In
	Gs []auditGreeter `group:"greeters"`
}

type auditConsumer struct{}
type auditGroupConsumer struct{}

func TestAuditC15_AsOnValueTypePanicsInConsumer(t *testing.T) {
	c := godi.NewCollection()
	err := c.AddScoped(func() auditValueImpl { return auditValueImpl{} }, godi.As[auditGreeter]())
	if err != nil {
		// auditValueImpl does not implement auditGreeter: a TypeMismatchError
		// at registration is the classifiable outcome.
		t.Logf("registration rejected: %v", err)
		return
	}
	if err := c.AddScoped(func(in auditGreeterParams) *auditConsumer { return &auditConsumer{} }); err != nil {
		t.Fatal(err)
	}

	p, err := c.Build()
	if err != nil {
		t.Logf("Build rejected: %v", err)
		return
	}
	defer p.Close()
	s, err := p.CreateScope(nil)
	if err != nil {
		t.Fatal(err)
	}
	defer s.Close()

	auditNoPanic(t, "Scope.Get of a consumer of an As-registered value type", func() {
		_, err := s.Get(reflect.TypeOf((*auditConsumer)(nil)))
		t.Logf("Get: %v", err)
	})
}

func TestAuditC15_AsOnValueTypeInGroupPanicsInConsumer(t *testing.T) {
	c := godi.NewCollection()
	err := c.AddScoped(func() auditValueImpl { return auditValueImpl{} }, godi.As[auditGreeter](), godi.Group("greeters"))
	if err != nil {
		t.Logf("registration rejected: %v", err)
		return
	}
	if err := c.AddScoped(func(in auditGreeterGroupParams) *auditGroupConsumer { return &auditGroupConsumer{} }); err != nil {
		t.Fatal(err)
	}

	p, err := c.Build()
	if err != nil {
		t.Logf("Build rejected: %v", err)
		return
	}
	defer p.Close()
	s, err := p.CreateScope(nil)
	if err != nil {
		t.Fatal(err)
	}
	defer s.Close()

	auditNoPanic(t, "Scope.Get of a group consumer of an As-registered value type", func() {
		_, err := s.Get(reflect.TypeOf((*auditGroupConsumer)(nil)))
		t.Logf("Get: %v", err)
	})
}

// ---------------------------------------------------------------------------
// Finding 4 (C15): the error (or panic) of the constructor of a REGISTERED
// dependency is swallowed when the consumer declares it optional:"true"; the
// consumer is built with a nil field and, being scoped, cached that way, so
// the failed resolution is effectively cached.
// ---------------------------------------------------------------------------

var errAuditBoom = errors.New("audit: dependency constructor failed")

type auditDep struct{ n int }

type auditOptParams struct {
	godi.In
	Dep *auditDep `optional:"true"`
}

type auditOptConsumer struct{ dep *auditDep }

func TestAuditC15_OptionalDependencyConstructorErrorIsSwallowed(t *testing.T) {
	c := godi.NewCollection()
	calls := 0
	if err := c.AddScoped(func() (*auditDep, error) {
		calls++
		if calls == 1 {
			return nil, errAuditBoom // transient failure on the first invocation
		}
		return &auditDep{n: calls}, nil
	}); err != nil {
		t.Fatal(err)
	}
	if err := c.AddScoped(func(in auditOptParams) *auditOptConsumer { return &auditOptConsumer{dep: in.Dep} }); err != nil {
		t.Fatal(err)
	}

	p, err := c.Build()
	if err != nil {
		t.Fatal(err)
	}
	defer p.Close()
	s, err := p.CreateScope(nil)
	if err != nil {
		t.Fatal(err)
	}
	defer s.Close()

	v, err := s.Get(reflect.TypeOf((*auditOptConsumer)(nil)))
	if err == nil {
		t.Errorf("C15 violated: the registered dependency's constructor returned an error, but Get(consumer) reported none (consumer.dep=%v)", v.(*auditOptConsumer).dep)
	} else if !errors.Is(err, errAuditBoom) {
		t.Errorf("C15 violated: constructor's own error not reachable: %v", err)
	}

	// Retry: the dependency's constructor now succeeds. A retry must behave
	// like a first attempt, i.e. the consumer must see the dependency.
	v, err = s.Get(reflect.TypeOf((*auditOptConsumer)(nil)))
	if err != nil {
		t.Fatalf("retry failed: %v", err)
	}
	if v.(*auditOptConsumer).dep == nil {
		t.Errorf("C15 violated: the failed resolution was cached: on retry the consumer still has a nil dependency although *auditDep now resolves")
	}
}

func TestAuditC15_OptionalDependencyConstructorPanicIsSwallowed(t *testing.T) {
	c := godi.NewCollection()
	if err := c.AddTransient(func() *auditDep { panic("audit: kaboom") }); err != nil {
		t.Fatal(err)
	}
	if err := c.AddTransient(func(in auditOptParams) *auditOptConsumer { return &auditOptConsumer{dep: in.Dep} }); err != nil {
		t.Fatal(err)
	}

	p, err := c.Build()
	if err != nil {
		t.Fatal(err)
	}
	defer p.Close()

	_, err = p.Get(reflect.TypeOf((*auditOptConsumer)(nil)))
	var pe *godi.ConstructorPanicError
	if err == nil {
		t.Errorf("C15 violated: a constructor panicked during the resolution and no error was reported")
	} else if !errors.As(err, &pe) || pe.Panic != "audit: kaboom" {
		t.Errorf("C15 violated: panic value not exposed: %v", err)
	}
}

// ---------------------------------------------------------------------------
// Finding 5 (C08, acceptance direction): a variadic constructor can never be
// built. Its dependency ([]T) is registered, there is no cycle and no lifetime
// conflict, and the constructor itself would succeed - yet Build fails and
// reports that the constructor "panicked" although it was never entered.
// ---------------------------------------------------------------------------

type auditPlugin struct{ name string }
type auditHost struct{ plugins []*auditPlugin }

func TestAuditC08_VariadicConstructorRejectedByBuild(t *testing.T) {
	c := godi.NewCollection()
	if err := c.AddSingleton(func() []*auditPlugin { return []*auditPlugin{{"a"}, {"b"}} }); err != nil {
		t.Fatal(err)
	}
	entered := false
	if err := c.AddSingleton(func(plugins ...*auditPlugin) *auditHost {
		entered = true
		return &auditHost{plugins: plugins}
	}); err != nil {
		// rejecting the form at registration is a different (acceptable) contract
		t.Logf("registration rejected: %v", err)
		return
	}

	p, err := c.Build()
	if err != nil {
		var pe *godi.ConstructorPanicError
		t.Errorf("C08 violated: Build rejected a registration set with no cycle, no lifetime conflict and no missing dependency (constructor entered=%v, reported as constructor panic=%v): %.160v",
			entered, errors.As(err, &pe), err)
		return
	}
	defer p.Close()

	h, err := godi.Resolve[*auditHost](p)
	if err != nil {
		t.Fatalf("resolve: %v", err)
	}
	if len(h.plugins) != 2 {
		t.Errorf("variadic constructor received %d plugins, want 2", len(h.plugins))
	}
}
