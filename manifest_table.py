SIM = "seeded deterministic simulation: source-rewritten godi under a token scheduler, choice-tape replay, ledger + reference-model oracles"
ENGINES = [
 {"name": "container-sim", "path": "sim/harness (engine_container.go)", "serves_properties": ["C02"],
  "kind_free_text": "generated registration sets x client programs x fault plans x seeded schedules over the real, instrumented godi; oracles over the recorded ledger"},
]
NOTES = "All checks rebuild the instrumented binaries from /repo's working tree (cached by tree hash under /verif/.cache). Exit 2 = build/harness trouble, never a violation."
CLAIMED = {
 "C02": {"engine": "container-sim", "level": "exploration", "technique": SIM + "; seeded schedule search with 1-4 client tasks per scope",
         "text": "Seeded search over registration sets, scope trees and interleavings (yield points at every sync/atomic site and inside constructors); every delivery of a scoped identity is checked against the ledger: one instance per (scope, registration), disjoint between scopes, initializers exactly once per scope creation.",
         "note": "Sampling, not enumeration. Type pool of 20 pointer types + 4 interfaces; constructors are reflect.MakeFunc values."},
}
NOT_APPLICABLE = {}
